"""
A small model of the numpy subset dfols uses, over the scalars of sym.py.

SArr = (storage list, flat index map, shape).  Basic slicing / .T / reshape give *views*
(shared storage, like numpy); fancy and boolean indexing give copies.  Storage objects carry
an `owner` tag (caller-owned data for C19) and arrays a provenance `tag` (C01/C09).
Shapes are always concrete; a symbolic boolean mask used for reading forks per element.
"""
import math
from fractions import Fraction

import numpy as _np
import z3

from . import core
from . import sym
from .sym import (SInt, SFloat, SBool, SFP, ite, f_cmp, wrapb, braw, b_or, b_and, b_not,
                  np_minimum2, np_maximum2, f_sqrt, f_abs, f_isnan, f_isfinite)


class Store(list):
    __slots__ = ('owner', 'writes')

    def __init__(self, it=()):
        super().__init__(it)
        self.owner = None
        self.writes = 0


def _fl(x):
    """normalise a concrete python number entering a float array"""
    if isinstance(x, bool):
        return Fraction(int(x))
    if isinstance(x, int):
        return Fraction(x)
    if isinstance(x, float):
        if math.isnan(x):
            return sym.NAN
        if math.isinf(x):
            return sym.PINF if x > 0 else sym.NINF
        return Fraction(x)
    if isinstance(x, SInt):
        return x._tofloat()
    if isinstance(x, _np.floating):
        return _fl(float(x))
    if isinstance(x, _np.integer):
        return Fraction(int(x))
    return x


def _kind_of(x):
    if isinstance(x, (bool, SBool, _np.bool_)):
        return 'b'
    if isinstance(x, (int, SInt, _np.integer)):
        return 'i'
    return 'f'


def _prod(shape):
    r = 1
    for s in shape:
        r *= s
    return r


def cidx(k):
    """index-like -> python int (concretising symbolic ints)"""
    if isinstance(k, int):
        return k
    if isinstance(k, SInt):
        return int(k)
    if isinstance(k, Fraction) and k.denominator == 1:
        return int(k)
    if isinstance(k, _np.integer):
        return int(k)
    if isinstance(k, SBool):
        return 1 if bool(k) else 0
    raise IndexError("bad index %r" % (k,))


class SArr(object):
    __slots__ = ('st', 'idx', 'shape', 'dtype', 'tag')
    __array_priority__ = 10000
    _is_sarr = True

    def __init__(self, st, idx, shape, dtype='f', tag=None):
        self.st = st
        self.idx = idx
        self.shape = tuple(shape)
        self.dtype = dtype
        self.tag = tag

    # ---- construction -------------------------------------------------------------
    @staticmethod
    def new(shape, fill, dtype='f'):
        if isinstance(shape, (int, SInt)):
            shape = (cidx(shape),)
        shape = tuple(cidx(s) for s in shape)
        n = _prod(shape)
        if dtype == 'f':
            fill = _fl(fill)
        return SArr(Store([fill] * n), list(range(n)), shape, dtype)

    @staticmethod
    def from_flat(vals, shape, dtype=None):
        vals = list(vals)
        if dtype is None:
            ks = set(_kind_of(v) for v in vals) or {'f'}
            dtype = 'f' if 'f' in ks else ('i' if 'i' in ks else 'b')
        if dtype == 'f':
            vals = [_fl(v) for v in vals]
        return SArr(Store(vals), list(range(len(vals))), tuple(shape), dtype)

    @staticmethod
    def from_nested(obj, dtype=None):
        if isinstance(obj, SArr):
            r = obj.copy()
            if dtype is not None and dtype != r.dtype:
                r = r.astype(dtype)
            return r
        if isinstance(obj, _np.ndarray):
            obj = obj.tolist()
        if not isinstance(obj, (list, tuple)):
            return SArr.from_flat([obj], (), dtype)
        if len(obj) == 0:
            return SArr.from_flat([], (0,), dtype or 'f')
        first = obj[0]
        if isinstance(first, (list, tuple, SArr, _np.ndarray)):
            rows = [SArr.from_nested(r, dtype) for r in obj]
            flat = []
            for r in rows:
                flat.extend(r.flat())
            return SArr.from_flat(flat, (len(rows),) + rows[0].shape, dtype or rows[0].dtype)
        return SArr.from_flat(list(obj), (len(obj),), dtype)

    # ---- basic -----------------------------------------------------------------------
    def flat(self):
        st = self.st
        return [st[i] for i in self.idx]

    @property
    def ndim(self):
        return len(self.shape)

    @property
    def size(self):
        return _prod(self.shape)

    def __len__(self):
        if not self.shape:
            raise TypeError("len() of unsized object")
        return self.shape[0]

    def copy(self):
        return SArr(Store(self.flat()), list(range(len(self.idx))), self.shape, self.dtype, self.tag)

    def astype(self, t):
        d = _dtype_code(t)
        vals = self.flat()
        if d == 'f':
            vals = [_fl(v) for v in vals]
        elif d == 'i' and self.dtype == 'f':
            vals = [sym_int(v) for v in vals]
        return SArr(Store(vals), list(range(len(vals))), self.shape, d)

    @property
    def T(self):
        if self.ndim < 2:
            return self
        r, c = self.shape
        idx = [self.idx[i * c + j] for j in range(c) for i in range(r)]
        return SArr(self.st, idx, (c, r), self.dtype)

    def reshape(self, *shape):
        if len(shape) == 1 and isinstance(shape[0], (tuple, list)):
            shape = tuple(shape[0])
        shape = [cidx(s) for s in shape]
        if -1 in shape:
            k = shape.index(-1)
            rest = _prod([s for s in shape if s != -1])
            shape[k] = self.size // max(rest, 1)
        assert _prod(shape) == self.size, "cannot reshape"
        return SArr(self.st, list(self.idx), tuple(shape), self.dtype)

    def tolist(self):
        vals = self.flat()
        if self.ndim == 0:
            return vals[0]
        if self.ndim == 1:
            return list(vals)
        r, c = self.shape
        return [vals[i * c:(i + 1) * c] for i in range(r)]

    def __iter__(self):
        if self.ndim == 1:
            return iter([self._scalar(i) for i in self.idx])
        return iter([self[i] for i in range(self.shape[0])])

    def _scalar(self, flat_index):
        v = self.st[flat_index]
        if isinstance(v, SFloat) and not v.npy:
            return v.as_np()
        return v

    def __repr__(self):
        return "SArr(shape=%s, dtype=%s)" % (self.shape, self.dtype)

    def __str__(self):
        return "<symbolic array shape=%s>" % (self.shape,)

    def __hash__(self):
        return id(self)

    # ---- index resolution ------------------------------------------------------------------
    def _axis_sel(self, key, dim):
        """-> (list of positions, keepdim:bool, fancy:bool)"""
        if isinstance(key, slice):
            return list(range(*key.indices(dim))), True, False
        if isinstance(key, SArr):
            if key.dtype == 'b':
                assert key.shape == (dim,), "mask shape mismatch"
                pos = [i for i, m in enumerate(key.flat()) if bool(m)]
                return pos, True, True
            return [_wrap(cidx(k), dim) for k in key.flat()], True, True
        if isinstance(key, _np.ndarray):
            return self._axis_sel(SArr.from_nested(key), dim)
        if isinstance(key, (list, tuple)):
            if len(key) and all(isinstance(k, (bool, SBool)) for k in key):
                pos = [i for i, m in enumerate(key) if bool(m)]
                return pos, True, True
            return [_wrap(cidx(k), dim) for k in key], True, True
        k = _wrap(cidx(key), dim)
        return [k], False, False

    def _resolve(self, key):
        """-> (flat storage indices, result shape, is_view)"""
        if self.ndim == 1:
            if isinstance(key, tuple):
                assert len(key) == 1
                key = key[0]
            pos, keep, fancy = self._axis_sel(key, self.shape[0])
            return [self.idx[p] for p in pos], ((len(pos),) if keep else ()), not fancy
        if self.ndim == 2:
            r, c = self.shape
            if isinstance(key, SArr) and key.dtype == 'b' and key.ndim == 2:
                assert key.shape == self.shape
                pos = [i for i, m in enumerate(key.flat()) if bool(m)]
                return [self.idx[p] for p in pos], (len(pos),), False
            if not isinstance(key, tuple):
                key = (key, slice(None))
            assert len(key) == 2, "too many indices"
            rp, rkeep, rf = self._axis_sel(key[0], r)
            cp, ckeep, cf = self._axis_sel(key[1], c)
            if rf and cf:
                # numpy pairs fancy indices elementwise
                assert len(rp) == len(cp)
                return [self.idx[i * c + j] for i, j in zip(rp, cp)], (len(rp),), False
            flat = [self.idx[i * c + j] for i in rp for j in cp]
            shape = ()
            if rkeep:
                shape += (len(rp),)
            if ckeep:
                shape += (len(cp),)
            return flat, shape, not (rf or cf)
        if self.ndim == 0:
            if key == () or key is Ellipsis:
                return list(self.idx), (), True
        raise IndexError("unsupported ndim %d" % self.ndim)

    def __getitem__(self, key):
        flat, shape, view = self._resolve(key)
        if shape == ():
            return self._scalar(flat[0])
        if view:
            return SArr(self.st, flat, shape, self.dtype)
        return SArr(Store([self.st[i] for i in flat]), list(range(len(flat))), shape, self.dtype)

    def _write(self, i, v):
        st = self.st
        if st.owner is not None:
            p = core.CUR
            if p is not None:
                p.events.append(('write-to-owned', st.owner))
        st.writes += 1
        if self.dtype == 'f':
            v = _fl(v)
        st[i] = v

    def __setitem__(self, key, value):
        # symbolic boolean mask with scalar value: ITE assignment, no fork
        if isinstance(key, SArr) and key.dtype == 'b' and key.shape == self.shape and not isinstance(value, (SArr, list, tuple, _np.ndarray)):
            ms = key.flat()
            for p, m in zip(self.idx, ms):
                if m is True or (isinstance(m, _np.bool_) and bool(m)):
                    self._write(p, value)
                elif m is False or (isinstance(m, _np.bool_) and not bool(m)):
                    pass
                else:
                    self._write(p, ite(m, value if self.dtype != 'f' else _fl(value), self.st[p]))
            return
        flat, shape, _ = self._resolve(key)
        if isinstance(value, (list, tuple, _np.ndarray)):
            value = SArr.from_nested(value)
        if isinstance(value, SArr):
            vals = _broadcast_to(value, shape)
        else:
            vals = [value] * len(flat)
        assert len(vals) == len(flat), "shape mismatch in assignment: %s vs %s" % (shape, getattr(value, 'shape', None))
        for p, v in zip(flat, vals):
            self._write(p, v)

    # ---- arithmetic -----------------------------------------------------------------------
    def _bin(self, o, fn, dtype=None):
        return _binop(self, o, fn, dtype)

    def __add__(self, o):
        return _binop(self, o, lambda a, b: a + b)

    def __radd__(self, o):
        return _binop(o, self, lambda a, b: a + b)

    def __sub__(self, o):
        return _binop(self, o, lambda a, b: a - b)

    def __rsub__(self, o):
        return _binop(o, self, lambda a, b: a - b)

    def __mul__(self, o):
        return _binop(self, o, lambda a, b: a * b)

    def __rmul__(self, o):
        return _binop(o, self, lambda a, b: a * b)

    def __truediv__(self, o):
        return _binop(self, o, _npdiv, 'f')

    def __rtruediv__(self, o):
        return _binop(o, self, _npdiv, 'f')

    def __pow__(self, k):
        return _unop(self, lambda a: sym.f_pow(a, k) if not isinstance(a, int) else a ** k)

    def __neg__(self):
        return _unop(self, lambda a: -a)

    def __pos__(self):
        return self

    def __abs__(self):
        return _unop(self, f_abs)

    def __matmul__(self, o):
        return dot(self, o)

    def __rmatmul__(self, o):
        return dot(o, self)

    def __iadd__(self, o):
        r = _binop(self, o, lambda a, b: a + b)
        self._assign_all(r)
        return self

    def __isub__(self, o):
        r = _binop(self, o, lambda a, b: a - b)
        self._assign_all(r)
        return self

    def __imul__(self, o):
        r = _binop(self, o, lambda a, b: a * b)
        self._assign_all(r)
        return self

    def __itruediv__(self, o):
        r = _binop(self, o, _npdiv, 'f')
        self._assign_all(r)
        return self

    def _assign_all(self, r):
        assert r.shape == self.shape, "in-place op changes shape"
        for p, v in zip(self.idx, r.flat()):
            self._write(p, v)

    def _cmpop(self, o, op):
        def f(a, b):
            if isinstance(a, (SBool, bool)) or isinstance(b, (SBool, bool)):
                ta, tb = braw(a), braw(b)
                if isinstance(ta, bool) and isinstance(tb, bool):
                    return (ta == tb) if op == '==' else (ta != tb)
                e = sym.bterm(a) == sym.bterm(b)
                return wrapb(e if op == '==' else z3.Not(e))
            if sym.is_intlike(a) and sym.is_intlike(b):
                if isinstance(a, int) and isinstance(b, int):
                    return {'<': a < b, '<=': a <= b, '==': a == b, '!=': a != b, '>': a > b, '>=': a >= b}[op]
                a2 = a if isinstance(a, SInt) else SInt(z3.IntVal(a))
                return a2._cmp(op, b)
            return f_cmp(op, a, b)
        return _binop(self, o, f, 'b')

    def __lt__(self, o):
        return self._cmpop(o, '<')

    def __le__(self, o):
        return self._cmpop(o, '<=')

    def __gt__(self, o):
        return self._cmpop(o, '>')

    def __ge__(self, o):
        return self._cmpop(o, '>=')

    def __eq__(self, o):
        if o is None:
            return False
        return self._cmpop(o, '==')

    def __ne__(self, o):
        if o is None:
            return True
        return self._cmpop(o, '!=')

    def __and__(self, o):
        return _binop(self, o, lambda a, b: wrapb(b_and(braw(a), braw(b))), 'b')
    __rand__ = __and__

    def __or__(self, o):
        return _binop(self, o, lambda a, b: wrapb(b_or(braw(a), braw(b))), 'b')
    __ror__ = __or__

    def __invert__(self):
        return _unop(self, lambda a: wrapb(b_not(braw(a))), 'b')

    def __bool__(self):
        if self.size != 1:
            raise ValueError("The truth value of an array with more than one element is ambiguous")
        return bool(self.flat()[0])

    # ---- methods -------------------------------------------------------------------------
    def dot(self, o):
        return dot(self, o)

    def any(self):
        return np_any(self)

    def all(self):
        return np_all(self)

    def sum(self, axis=None):
        return np_sum(self, axis=axis)

    def max(self):
        return np_max(self)

    def min(self):
        return np_min(self)

    def mean(self, axis=None):
        return np_mean(self, axis=axis)

    def flatten(self):
        return SArr(Store(self.flat()), list(range(self.size)), (self.size,), self.dtype)

    def fill(self, v):
        for p in self.idx:
            self._write(p, v)


def _wrap(k, dim):
    if k < 0:
        k += dim
    if not (0 <= k < dim):
        raise IndexError("index %d is out of bounds for axis with size %d" % (k, dim))
    return k


def _npdiv(a, b):
    """numpy true division: numpy semantics for zero divisors"""
    if isinstance(a, SFP) or isinstance(b, SFP):
        return sym.f_div(a, b)
    if isinstance(a, SFloat):
        a = a.as_np()
    elif isinstance(b, SFloat):
        b = b.as_np()
    else:
        # both concrete (or SInt)
        if isinstance(b, (int, Fraction)) and not isinstance(a, (SInt,)):
            if b == 0:
                a0 = Fraction(a)
                return sym.NAN if a0 == 0 else (sym.PINF if a0 > 0 else sym.NINF)
            return Fraction(a) / Fraction(b)
        a = SFloat(sym._parts(a)[2], False, 0, True)
    return sym.f_div(a, b)


def sym_int(v):
    """float -> int truncation (astype(int), int())"""
    if isinstance(v, (int, SInt)):
        return v
    if isinstance(v, Fraction):
        return int(v)
    if isinstance(v, SFloat):
        p = core.CUR
        k = z3.Int(p.fresh_name('trunc'))
        vz = sym._zr(v.v)
        p.axiom(z3.If(vz >= 0, z3.And(z3.ToReal(k) <= vz, vz < z3.ToReal(k) + 1),
                      z3.And(z3.ToReal(k) >= vz, vz > z3.ToReal(k) - 1)))
        return SInt(k)
    return int(v)


def _dtype_code(t):
    dt = getattr(t, '_dt', None)
    if dt is not None:
        return dt
    if t in (float, 'float', _np.float64, 'f'):
        return 'f'
    if t in (int, 'int', _np.int64, _np.int32, 'i'):
        return 'i'
    if t in (bool, 'bool', _np.bool_, 'b'):
        return 'b'
    if t is None:
        return 'f'
    raise TypeError("dtype %r" % (t,))


def asarr(x):
    if isinstance(x, SArr):
        return x
    return SArr.from_nested(x)


def _bshape(sa, sb):
    n = max(len(sa), len(sb))
    sa = (1,) * (n - len(sa)) + tuple(sa)
    sb = (1,) * (n - len(sb)) + tuple(sb)
    out = []
    for a, b in zip(sa, sb):
        if a == b or b == 1:
            out.append(a)
        elif a == 1:
            out.append(b)
        else:
            raise ValueError("operands could not be broadcast together with shapes %s %s" % (sa, sb))
    return tuple(out), sa, sb


def _broadcast_to(arr, shape):
    """flat list of arr's values broadcast to shape"""
    if arr.shape == tuple(shape):
        return arr.flat()
    out, sa, _ = _bshape(arr.shape, shape)
    if out != tuple(shape):
        raise ValueError("could not broadcast input array from shape %s into shape %s" % (arr.shape, shape))
    vals = arr.flat()
    res = []
    n = len(shape)

    def rec(d, off_a):
        if d == n:
            res.append(vals[off_a])
            return
        stride = _prod(sa[d + 1:])
        for i in range(shape[d]):
            rec(d + 1, off_a + (i if sa[d] != 1 else 0) * stride)
    rec(0, 0)
    return res


def _isarr(x):
    return isinstance(x, (SArr, list, tuple, _np.ndarray))


def _binop(a, b, fn, dtype=None):
    if _isarr(a) and not isinstance(a, SArr):
        a = asarr(a)
    if _isarr(b) and not isinstance(b, SArr):
        b = asarr(b)
    if isinstance(a, SArr) and isinstance(b, SArr):
        shape, _, _ = _bshape(a.shape, b.shape)
        va = _broadcast_to(a, shape)
        vb = _broadcast_to(b, shape)
        vals = [fn(x, y) for x, y in zip(va, vb)]
        d = dtype or ('f' if 'f' in (a.dtype, b.dtype) else a.dtype)
    elif isinstance(a, SArr):
        vals = [fn(x, b) for x in a.flat()]
        shape = a.shape
        d = dtype or ('f' if (a.dtype == 'f' or sym.is_floatlike(b)) else a.dtype)
    else:
        vals = [fn(a, y) for y in b.flat()]
        shape = b.shape
        d = dtype or ('f' if (b.dtype == 'f' or sym.is_floatlike(a)) else b.dtype)
    if d == 'f':
        vals = [_fl(v) for v in vals]
    return SArr(Store(vals), list(range(len(vals))), shape, d)


def _unop(a, fn, dtype=None):
    vals = [fn(x) for x in a.flat()]
    d = dtype or a.dtype
    if d == 'f':
        vals = [_fl(v) for v in vals]
    return SArr(Store(vals), list(range(len(vals))), a.shape, d)


def _sum(vals):
    if not vals:
        return Fraction(0)
    r = vals[0]
    for v in vals[1:]:
        r = r + v
    return r


def _asnp(v):
    if isinstance(v, SFloat):
        return v.as_np()
    return v


def dot(a, b):
    if isinstance(a, SArr) and a.ndim == 0:
        a = a.flat()[0]
    if isinstance(b, SArr) and b.ndim == 0:
        b = b.flat()[0]
    if not _isarr(a) or not _isarr(b):
        # scalar * array
        if _isarr(a):
            return asarr(a) * b
        if _isarr(b):
            return a * asarr(b)
        return a * b
    a = asarr(a)
    b = asarr(b)
    if a.ndim == 1 and b.ndim == 1:
        assert a.shape == b.shape, "shapes %s and %s not aligned" % (a.shape, b.shape)
        return _asnp(_sum([x * y for x, y in zip(a.flat(), b.flat())]))
    if a.ndim == 2 and b.ndim == 1:
        r, c = a.shape
        if c != b.shape[0]:
            raise ValueError("shapes %s and %s not aligned" % (a.shape, b.shape))
        av, bv = a.flat(), b.flat()
        return SArr.from_flat([_sum([av[i * c + k] * bv[k] for k in range(c)]) for i in range(r)], (r,), 'f')
    if a.ndim == 1 and b.ndim == 2:
        r, c = b.shape
        if r != a.shape[0]:
            raise ValueError("shapes %s and %s not aligned" % (a.shape, b.shape))
        av, bv = a.flat(), b.flat()
        return SArr.from_flat([_sum([av[k] * bv[k * c + j] for k in range(r)]) for j in range(c)], (c,), 'f')
    if a.ndim == 2 and b.ndim == 2:
        r, k = a.shape
        k2, c = b.shape
        if k != k2:
            raise ValueError("shapes %s and %s not aligned" % (a.shape, b.shape))
        av, bv = a.flat(), b.flat()
        return SArr.from_flat([_sum([av[i * k + t] * bv[t * c + j] for t in range(k)]) for i in range(r) for j in range(c)], (r, c), 'f')
    raise ValueError("dot: unsupported shapes %s %s" % (a.shape, b.shape))


def np_sum(a, axis=None):
    a = asarr(a)
    if axis is None:
        vals = a.flat()
        if a.dtype == 'b':
            vals = [(v._as_int() if isinstance(v, SBool) else int(bool(v))) for v in vals]
            return _sum(vals) if vals else 0
        if a.dtype == 'i':
            return _sum(vals) if vals else 0
        return _asnp(_sum(vals))
    assert a.ndim == 2
    r, c = a.shape
    v = a.flat()
    if axis == 0:
        return SArr.from_flat([_sum([v[i * c + j] for i in range(r)]) for j in range(c)], (c,), a.dtype)
    return SArr.from_flat([_sum([v[i * c + j] for j in range(c)]) for i in range(r)], (r,), a.dtype)


def np_mean(a, axis=None):
    a = asarr(a)
    if axis is None:
        return _npdiv(_sum(a.flat()), a.size)
    assert a.ndim == 2
    n = a.shape[axis]
    s = np_sum(a, axis=axis)
    if n == 0:
        return s * sym.NAN
    if n == 1:
        return s.astype('f')
    return s / n


def np_max(a, axis=None):
    a = asarr(a)
    vals = a.flat()
    if not vals:
        raise ValueError("zero-size array to reduction operation maximum which has no identity")
    r = vals[0]
    for v in vals[1:]:
        r = np_maximum2(r, v)
    return _asnp(r)


def np_min(a, axis=None):
    a = asarr(a)
    vals = a.flat()
    if not vals:
        raise ValueError("zero-size array to reduction operation minimum which has no identity")
    r = vals[0]
    for v in vals[1:]:
        r = np_minimum2(r, v)
    return _asnp(r)


def np_any(a):
    if isinstance(a, (bool, SBool)):
        return a
    a = asarr(a)
    return wrapb(b_or(*[_truth(v) for v in a.flat()]))


def np_all(a):
    if isinstance(a, (bool, SBool)):
        return a
    a = asarr(a)
    return wrapb(b_and(*[_truth(v) for v in a.flat()]))


def _truth(v):
    if isinstance(v, (bool, SBool)):
        return braw(v)
    if isinstance(v, _np.bool_):
        return bool(v)
    return braw(v != 0)


def _map(a, fn, dtype=None):
    if _isarr(a):
        return _unop(asarr(a), fn, dtype)
    return fn(a)


def np_argbest(a, better):
    """first index that is not beaten (numpy argmin/argmax; first NaN wins)"""
    a = asarr(a)
    vals = a.flat()
    if not vals:
        raise ValueError("attempt to get argmin/argmax of an empty sequence")
    for i, v in enumerate(vals):
        if bool(f_isnan(v)) if not sym.is_intlike(v) else False:
            return i
    best = 0
    for i in range(1, len(vals)):
        if bool(better(vals[i], vals[best])):
            best = i
    return best


def np_nanargbest(a, better):
    a = asarr(a)
    vals = a.flat()
    ok = [i for i, v in enumerate(vals) if sym.is_intlike(v) or not bool(f_isnan(v))]
    if not ok:
        raise ValueError("All-NaN slice encountered")
    best = ok[0]
    for i in ok[1:]:
        if bool(better(vals[i], vals[best])):
            best = i
    return best


def np_argsort(a):
    a = asarr(a)
    vals = a.flat()
    order = []
    # stable insertion sort with forking comparisons; NaN sorted last
    for i, v in enumerate(vals):
        pos = len(order)
        while pos > 0 and _sort_before(v, vals[order[pos - 1]]):
            pos -= 1
        order.insert(pos, i)
    return SArr.from_flat(order, (len(order),), 'i')


def _sort_before(a, b):
    """strictly a < b in numpy sort order (NaN last)"""
    if not sym.is_intlike(b) and bool(f_isnan(b)):
        return not bool(f_isnan(a)) if not sym.is_intlike(a) else True
    return bool(a < b)


def np_where(c, x=None, y=None):
    c = asarr(c)
    if x is None:
        assert c.ndim == 1
        pos = [i for i, m in enumerate(c.flat()) if bool(m if isinstance(m, (bool, SBool)) else m != 0)]
        return (SArr.from_flat(pos, (len(pos),), 'i'),)
    return _binop(_binop(c, x, lambda m, a: (m, a), 'O'), y, lambda ma, b: ite(braw(ma[0]), ma[1], b))


def np_append(a, v, axis=None):
    a = asarr(a)
    if axis is None:
        vv = asarr(v).flat() if _isarr(v) else [v]
        vals = a.flat() + list(vv)
        return SArr.from_flat(vals, (len(vals),), a.dtype)
    assert axis == 0 and a.ndim == 2
    v = asarr(v)
    assert v.ndim == 2 and v.shape[1] == a.shape[1]
    return SArr.from_flat(a.flat() + v.flat(), (a.shape[0] + v.shape[0], a.shape[1]), a.dtype)


def np_delete(a, which, axis=None):
    a = asarr(a)
    assert a.ndim == 1
    if not isinstance(which, (list, tuple, SArr)):
        which = [which]
    which = set(_wrap(cidx(k), a.shape[0]) for k in (which.flat() if isinstance(which, SArr) else which))
    vals = [v for i, v in enumerate(a.flat()) if i not in which]
    return SArr.from_flat(vals, (len(vals),), a.dtype)


def np_allclose(a, b, rtol=Fraction(1, 10**5), atol=Fraction(1, 10**8)):
    a = asarr(a) if _isarr(a) else SArr.from_flat([a], ())
    b = asarr(b) if _isarr(b) else SArr.from_flat([b], ())
    shape, _, _ = _bshape(a.shape, b.shape)
    va, vb = _broadcast_to(a, shape), _broadcast_to(b, shape)
    terms = []
    for x, y in zip(va, vb):
        fin = b_and(braw(f_isfinite(x)), braw(f_isfinite(y)))
        close = braw(f_cmp('<=', f_abs(x - y), atol + rtol * f_abs(y)))
        eqinf = b_and(b_not(braw(f_isfinite(x))), braw(f_cmp('==', x, y)))
        terms.append(b_or(b_and(fin, close), eqinf))
    return wrapb(b_and(*terms))


def np_isclose(a, b, rtol=Fraction(1, 10**5), atol=Fraction(1, 10**8), equal_nan=False):
    """elementwise |a - b| <= atol + rtol*|b| (numpy's asymmetric formula); scalar in, scalar out"""
    scalar = not _isarr(a) and not _isarr(b)
    a = asarr(a) if _isarr(a) else SArr.from_flat([a], ())
    b = asarr(b) if _isarr(b) else SArr.from_flat([b], ())
    rtol = rtol if isinstance(rtol, Fraction) else Fraction(rtol)
    atol = atol if isinstance(atol, Fraction) else Fraction(atol)
    shape, _, _ = _bshape(a.shape, b.shape)
    va, vb = _broadcast_to(a, shape), _broadcast_to(b, shape)
    out = []
    for x, y in zip(va, vb):
        fin = b_and(braw(f_isfinite(x)), braw(f_isfinite(y)))
        close = braw(f_cmp('<=', f_abs(x - y), atol + rtol * f_abs(y)))
        eqinf = b_and(b_not(braw(f_isfinite(x))), braw(f_cmp('==', x, y)))
        t = b_or(b_and(fin, close), eqinf)
        if equal_nan:
            t = b_or(t, b_and(braw(f_isnan(x)), braw(f_isnan(y))))
        out.append(wrapb(t))
    if scalar or shape == ():
        return out[0]
    return SArr.from_flat(out, shape, 'b')


def vec_norm(x):
    x = asarr(x)
    vals = x.flat()
    if not vals:
        return Fraction(0)
    s = _sum([v * v for v in vals])
    r = f_sqrt(s, np_sem=True)
    return _asnp(r)
