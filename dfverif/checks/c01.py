"""
C01 - bound constraints are never violated at any evaluation point (exactly).

(a) IEEE binary64 kernel (z3 QF_FP): the real Model.__init__ / shift_base / as_absolute_coordinates / xpt on
    genuine doubles - every point the model hands out in absolute coordinates lies in [xl, xu] with no tolerance.
    The code on this path is elementwise, so one coordinate is all coordinates.
(b) binary64: remove_scaling(x) for x in the unit box lies in [xl, xu] (internal scaling).
(c) glue in real arithmetic: every x passed to objfun in one main-loop iteration (STEP) and the x0 handed to a run
    (OUTER) are outputs of those accessors / inside the box.
"""
from ..harness import Harness, run_property
from .. import core, sym, step, outer, runstart


def _finite(E, arrs):
    if E.symbolic:
        import z3
        for a in arrs:
            for v in a.flat():
                E.assume(sym.wrapb(z3.Not(z3.Or(z3.fpIsNaN(v.t), z3.fpIsInf(v.t)))), check=False)


def body_kernel(E, shifts, far, onesided=None):
    Model = E.get('Model')
    x0 = E.vec('x0_', 1, fp=True)
    xl = E.vec('xl', 1, fp=True)
    xu = E.vec('xu', 1, fp=True)
    p = E.vec('p', 1, fp=True)
    _finite(E, [x0, xl, xu, p])
    E.assume(E.all([xl[0] <= x0[0], x0[0] <= xu[0]]), check=False)
    if far:
        # moderate magnitudes, bound in another binade than the base point (the region where rounding bites)
        E.assume(E.all([x0[0] >= 1, x0[0] <= 2, xl[0] >= E.const('0.25'), xl[0] <= E.const('0.5'), xu[0] <= 4]), check=False)
    elif onesided == 'no-lower':      # an absent bound is stored by solve() as -1e20 / +1e20
        E.assume(E.all([x0[0] >= -1000, x0[0] <= 1000, xl[0] == E.const(-1e20), xu[0] <= 1000]), check=False)
    elif onesided == 'no-upper':
        E.assume(E.all([x0[0] >= -1000, x0[0] <= 1000, xl[0] >= -1000, xu[0] == E.const(1e20)]), check=False)
    else:
        E.assume(E.all([x0[0] >= -1000, x0[0] <= 1000, xl[0] >= -1000, xu[0] <= 1000]), check=False)
    E.assume(E.all([p[0] >= -1000, p[0] <= 1000]), check=False)
    r0 = E.arr([0.5], 'f')
    M = Model(2, x0, r0, xl, xu, [], 1, do_logging=False)
    for i in range(shifts):
        s = E.vec('s%d_' % i, 1, fp=True)
        _finite(E, [s])
        # a base shift is always the current iterate, i.e. a point of the (shifted) box
        E.assume(E.all([M.sl[0] <= s[0], s[0] <= M.su[0]]), check=False)
        M.shift_base(s)
    out = M.as_absolute_coordinates(p)
    E.prove(E.all([xl[0] <= out[0], out[0] <= xu[0]]), 'as_absolute_coordinates-output-exactly-in-box[shifts=%d]' % shifts)
    M.points[1, :] = p
    M.npt_so_far = 2
    out2 = M.xpt(1, abs_coordinates=True)
    E.prove(E.all([xl[0] <= out2[0], out2[0] <= xu[0]]), 'xpt-abs-output-exactly-in-box[shifts=%d]' % shifts)
    M.kopt = 1
    out3 = M.xopt(abs_coordinates=True)
    E.prove(E.all([xl[0] <= out3[0], out3[0] <= xu[0]]), 'xopt-abs-output-exactly-in-box[shifts=%d]' % shifts)


def body_scaling(E, real_apply=False):
    """the scaling record is built by the real solve prologue (solve_main stubbed to capture it)"""
    from ..harness import Stop
    remove_scaling = E.get('remove_scaling')
    xl = E.vec('xl', 1, fp=True)
    xu = E.vec('xu', 1, fp=True)
    x = E.vec('x', 1, fp=True)
    _finite(E, [xl, xu, x])
    E.assume(E.all([xl[0] + 1 <= xu[0], xl[0] >= -1000, xu[0] <= 1000, x[0] >= 0, x[0] <= 1]), check=False)
    got = {}

    def solve_main(objfun, x0_, argsf, xl_, xu_, projections, npt, rhobeg, rhoend, maxfun, nruns, nf, nx, nsamples, params,
                   diagnostic_info, scaling_changes, *a, **k):
        got['sc'] = scaling_changes
        got['box'] = (xl_, xu_)
        raise Stop('solve_main')
    E.patch('solve_main', solve_main)
    if not real_apply:
        # the record (lower, upper-lower, upper) is built by the real prologue; the *forward* scaling of x0/xl/xu is replaced by its
        # contract (unit box; proved for the real apply_scaling in the sibling harness) - its binary64 divisions only slow the query down
        count = [0]

        def apply_scaling(x_raw, scaling_changes):
            if scaling_changes is None:
                return x_raw
            count[0] += 1
            return x_raw * 0 + (E.const('0.5') if count[0] == 1 else (0 if count[0] == 2 else 1))
        E.patch('apply_scaling', apply_scaling)
    try:
        E.get('solve')(lambda v: v, xl.copy(), bounds=(xl, xu), scaling_within_bounds=True, rhobeg=E.const('0.125'), rhoend=E.const('0.0009765625'),
                       maxfun=10)
    except Stop:
        pass
    E.prove('sc' in got and got['sc'] is not None, 'scaling-record-built')
    if got.get('sc') is None:
        return
    if real_apply:
        E.prove(E.all([got['box'][0][0] == 0, got['box'][1][0] == 1]), 'scaled-box-is-exactly-the-unit-box')
        return
    out = remove_scaling(x, got['sc'])
    E.prove(E.all([xl[0] <= out[0], out[0] <= xu[0]]), 'remove_scaling-of-unit-box-point-exactly-in-box')


FUNCS = ['solver.solve', 'util.apply_scaling', 'model.Model.__init__', 'model.Model.shift_base', 'model.Model.as_absolute_coordinates', 'model.Model.xpt',
         'model.Model.xopt', 'util.remove_scaling']


def harnesses(tier, seed):
    hs = []
    to = 120000 if tier == 'quick' else 600000
    ks = [0, 1] if tier == 'quick' else [0, 1, 2]
    for k in ks:
        for far in (True, False):
            hs.append(Harness("binary64-kernel[shifts=%d,%s]" % (k, 'bound-in-other-binade' if far else 'magnitudes<=1000'), 'dfverif.checks.c01', 'body_kernel',
                              params=dict(shifts=k, far=far), cfg=core.Cfg(fork_queries=True, qtimeout_ms=to, logic='QF_FP'), functions=FUNCS,
                              bounds="IEEE binary64 (round to nearest even), one coordinate (the code is elementwise => all n), %d base shift(s), |values| <= 1000" % k,
                              assumptions=["finite inputs, xl <= x0 <= xu; each base shift lies in the current shifted box (it is the iterate)"],
                              expect=['as_absolute_coordinates-output-exactly-in-box[shifts=%d]' % k], nproc=1, max_replays=2))
    for side in ('no-lower', 'no-upper'):
        hs.append(Harness("binary64-kernel[shifts=0,one-sided,%s]" % side, 'dfverif.checks.c01', 'body_kernel',
                          params=dict(shifts=0, far=False, onesided=side), cfg=core.Cfg(fork_queries=True, qtimeout_ms=to, logic='QF_FP'), functions=FUNCS,
                          bounds="IEEE binary64, one coordinate, one bound absent (stored as -1e20 / +1e20), the other and x0 within 1000",
                          assumptions=["finite inputs, xl <= x0 <= xu"],
                          expect=['as_absolute_coordinates-output-exactly-in-box[shifts=0]'], nproc=1, max_replays=2))
    hs.append(Harness("binary64-scaling", 'dfverif.checks.c01', 'body_scaling', params={}, cfg=core.Cfg(fork_queries=True, qtimeout_ms=to),
                      functions=FUNCS, bounds="IEEE binary64, one coordinate, |bounds| <= 1000, x in [0,1]",
                      assumptions=["finite inputs, xl < xu"], expect=['remove_scaling-of-unit-box-point-exactly-in-box'], nproc=1, max_replays=2))
    hs += step.step_harnesses(tier, seed, 'C01')
    # every other evaluation site of the controller, as stand-alone actions (soft_restart evaluates through geometry_step)
    hs += [h for h in step.action_harnesses(tier, seed, 'C01') if tier != 'quick' or not h.name.startswith('action[soft_restart')]
    hs += outer.outer_harnesses(tier, seed, 'C01')
    hs += runstart.start_harnesses(tier, seed, 'C01')
    from .c03 import shared_c02_harnesses
    hs += [h for h in shared_c02_harnesses(tier, ('evalobj',)) if 'scaling' in h.name]
    # with projections the box is one more projector: it must be the LAST one (then the returned point is its output: exact, C15)
    from . import c09
    for h in c09.harnesses(tier, seed):
        if h.name.startswith('prologue['):
            h.home = 'C01'
            h.name = 'projections-' + h.name
            h.expect = ['prologue:box-projector-appended-last-is-clip(lower,upper)']
            hs.append(h)
    # ... and the alternating projection must really return the output of that last projector (exactly in the box by the binary64
    # pbox lemma): C15's loop harness, which fails if any path of dykstra returns something else (e.g. an unprojected shortcut)
    from . import c15
    for h in c15.harnesses(tier, seed):
        if h.name.startswith('stoprule[n=1,p=2') or h.name.startswith('box-exact-binary64[n=1]'):
            h.home = 'C01'
            h.name = 'C15-lemma:' + h.name
            hs.append(h)
    return hs


def run(tier, seed):
    return run_property(
        'C01', hs_ if (hs_ := harnesses(tier, seed)) else [], tier, seed,
        explanation="Exactness decided in genuine IEEE binary64 (z3 QF_FP) on the real Model accessors and remove_scaling; the glue "
                    "(every evaluated x is such an accessor output inside the box, x0 is pushed into the box before a run) in real "
                    "arithmetic by STEP and OUTER. Counterexamples are replayed on the imported dfols.Model with the doubles found.")
