"""
C02 - evaluation budget and evaluation counters are exact.

Lemma 1: Controller.evaluate_objective (the single choke point) from any state with nx <= nf <= maxfun.
Lemma 2: the x0-sampling block of solve_main (own budget test).
Lemma 3: soft_restart admission.    Lemma 4: hard-restart loop of solve (solve_main summarised).
Lemma 5 (main-loop step: counters only change inside lemma 1, sample counts come from the callback) lives in
the shared STEP harness (dfverif.step) and is reported there under C02 obligations.
"""
import re

from ..harness import Harness, run_property, Stop
from .. import core, loader
from ..state import mk_controller, mk_objfun, EvalLog, mk_params, mk_h


def parse_eval_log(msg):
    """('Function eval %i at point %i ...') -> (eval_num, pt_num) or None"""
    args = getattr(msg, 'args', None)
    tmpl = getattr(msg, 'template', None)
    if tmpl is not None:
        if tmpl.startswith('Function eval'):
            return args[0], args[1]
        return None
    mm = re.match(r'Function eval (\d+) at point (\d+) ', str(msg))
    if mm:
        return int(mm.group(1)), int(mm.group(2))
    return None


def body_evalobj(E, n, m, with_h, preset, xr=False, scaling=False, long_x=False):
    log = EvalLog()
    objfun = mk_objfun(E, m, log, xr=xr)
    C, M, ghost, params = mk_controller(E, n, m, n + 1, n + 1, preset=preset, with_h=with_h, with_save=False, objfun=objfun, xr=xr,
                                         scaling=scaling)
    if long_x:
        # 'long vector' log format: x is not printed when n reaches logging.n_to_print_whole_x_vector (6 by default; here lowered to n)
        params.params["logging.n_to_print_whole_x_vector"] = n
    C.do_logging = True
    logged = []
    E.hooks(log=lambda level, msg: logged.append(parse_eval_log(msg)))
    nf0, nx0, maxfun = C.nf, C.nx, C.maxfun
    want = int(E.int('want', 1, 3))
    x = E.vec('xq', n)
    if with_h:
        del M.h.calls[:]
    r, o, run, exit_info = C.evaluate_objective(x, want, params)
    x_user = x
    if scaling:
        sh, sc_, up = C.scaling_changes
        raw = sh + x * sc_
        x_user = [E.ite(raw[i] < sh[i], sh[i], E.ite(raw[i] > up[i], up[i], raw[i])) for i in range(n)]
    if with_h and M.h.calls:
        E.prove(E.all([E.all([E.eq(hx[i], x_user[i]) for i in range(n)]) for (hx, _) in M.h.calls]), 'C06:evalobj:h-is-evaluated-at-the-user-space-point')
    logged = [t for t in logged if t is not None]
    calls = len(log.calls)
    E.prove(C.nf - nf0 == calls, 'nf-counts-calls')
    E.prove(run == calls, 'num_samples_run-is-calls')
    E.prove(calls <= want, 'no-more-than-requested')
    E.prove(C.nx - nx0 == (1 if calls >= 1 else 0), 'nx-advances-once-iff-evaluated')
    E.prove(C.nf <= maxfun, 'budget-respected')
    E.prove(E.implies(nf0 + want <= maxfun, calls == want), 'all-requested-samples-when-budget-allows')
    if calls < want:
        E.prove(exit_info is not None and exit_info.flag == E.get('EXIT_MAXFUN_WARNING') or
                (exit_info is not None and 'sufficiently small' in exit_info.msg), 'short-count-only-by-budget')
        E.prove(C.nf == maxfun, 'short-count-means-budget-exhausted')
    for k, c in enumerate(log.calls):
        E.prove(E.all([E.eq(c['x'][j], x_user[j]) for j in range(n)]), 'every-sample-gets-identical-x')
        if scaling:
            E.prove(E.all([E.eq(c['x'][j], x_user[j]) for j in range(n)]), 'C01:evalobj:objfun-receives-the-point-un-scaled-to-user-units')
        for j in range(m):
            E.prove(E.same(r[k, j], c['r'][j]), 'returned-rows-are-the-residuals-received')
    E.prove(len(logged) == calls, 'one-log-line-per-call')
    for k, (en, pn) in enumerate(logged):
        E.prove(en == nf0 + k + 1, 'logged-eval-numbers-consecutive')
        E.prove(pn == nx0 + 1, 'logged-point-number-is-new-nx')
    if exit_info is not None and exit_info.flag == E.get('EXIT_SUCCESS'):
        # C10: "objective is sufficiently small" tells the truth (on the averaged residuals)
        mean = [sum(log.calls[k]['r'][j] for k in range(calls)) / calls for j in range(m)]
        f = sum(v * v for v in mean)
        if with_h:
            f = f + M.h(x_user if not scaling else E.arr(x_user))
        thresh = E.ite(M.rel_tol * M.objbeg > M.abs_tol, M.rel_tol * M.objbeg, M.abs_tol)
        if not xr:
            E.prove(E.le(f, thresh, tol=0), 'C10:small-objective-exit-is-true')
        # a success flag is never attached to a non-finite objective (whatever f(x0) was: finite, inf or NaN)
        E.prove(E.isfinite(f), 'C10:small-objective-success-has-a-finite-objective')


def body_x0block(E, n, m, with_h, r0_old, int_resid=False):
    """x0-sampling block of solve_main: first point of a run, own budget test; ends at Controller construction"""
    log = EvalLog()
    objfun = mk_objfun(E, m, log)
    if int_resid:
        # an objective that returns an integer array (counts): the result must still carry the solver's own float64 array
        def objfun(x, *args):
            r = E.vec('fi%d_' % len(log.calls), m, dtype='i', lo=-1000, hi=1000)
            log.calls.append({'x': x.copy(), 'r': r})
            return r
    maxfun = E.int('maxfun', 1, None)
    params = mk_params(E, n, n + 1, maxfun)
    nf0 = E.int('nf0', 0, None)
    nx0 = E.int('nx0', 0, None)
    nruns0 = E.int('nruns0', 0, None)
    E.assume(E.all([nx0 <= nf0, nf0 < maxfun]))      # solve / the restart loop only enter with nf < maxfun (lemma 4)
    want = E.int('want', -1, 3)
    nsamples = lambda delta, rho, it, nruns: want
    x0 = E.vec('x0_', n)
    xl = x0 - 1
    xu = x0 + 1
    h = mk_h(E, n) if with_h else None
    logged = []
    E.hooks(log=lambda level, msg: logged.append(parse_eval_log(msg)))
    seen = {}

    class ControllerStub(object):
        def __init__(self, objfun_, argsf, x0_, r0, r0_nsamples, xl_, xu_, projections, npt, rhobeg, rhoend, nf, nx, maxfun_, *a, **k):
            seen.update(r0=r0, cnt=r0_nsamples, nf=nf, nx=nx)
            raise Stop('controller')
    E.patch('Controller', ControllerStub)
    solve_main = E.get('solve_main')
    kw = {}
    if r0_old:
        kw = dict(r0_avg_old=E.vec('rold', m), r0_nsamples_old=E.int('cntold', 1, 3))
    try:
        ret = solve_main(objfun, x0, (), xl, xu, [], n + 1, E.const('0.5'), E.const('0.001'), maxfun, nruns0, nf0, nx0,
                         nsamples, params, None, None, h, (E.const(1) if with_h else None), (), None, (), do_logging=True,
                         default_growing_method_set_by_user=True, **kw)
    except Stop:
        ret = None
    logged = [t for t in logged if t is not None]
    calls = len(log.calls)
    if r0_old:
        E.prove(calls == 0, 'recycled-x0-costs-no-evaluation')
        E.prove(ret is None and seen['nf'] == nf0 and seen['nx'] == nx0, 'counters-unchanged')
        return
    req = E.ite(want >= 1, want, 1)
    nf1 = ret[5] if ret is not None else seen['nf']
    nx1 = ret[6] if ret is not None else seen['nx']
    E.prove(nf1 - nf0 == calls, 'nf-counts-calls')
    E.prove(nx1 - nx0 == 1, 'nx-advances-once')
    E.prove(nf1 <= maxfun, 'budget-respected')
    E.prove(calls <= req, 'no-more-than-requested')
    E.prove(E.implies(nf0 + req <= maxfun, calls == req), 'all-requested-samples-when-budget-allows')
    E.prove(E.implies(calls < req, nf1 == maxfun), 'short-count-means-budget-exhausted')
    for k, c in enumerate(log.calls):
        E.prove(E.all([E.eq(c['x'][j], x0[j]) for j in range(n)]), 'every-sample-gets-identical-x')
    E.prove(len(logged) == calls, 'one-log-line-per-call')
    for k, (en, pn) in enumerate(logged):
        E.prove(en == nf0 + k + 1, 'logged-eval-numbers-consecutive')
        E.prove(pn == nx0 + 1, 'logged-point-number-is-new-nx')
    mean = [sum(log.calls[k]['r'][j] for k in range(calls)) / calls for j in range(m)]
    if ret is None:
        E.prove(E.all([E.eq(seen['r0'][j], mean[j]) for j in range(m)]), 'controller-gets-mean-of-samples')
        E.prove(seen['cnt'] == calls, 'controller-gets-sample-count')
    else:
        # early exit at x0 (budget or small objective): C10 / C03 obligations
        xr_, rr, obj, jac, cnt, nf_r, nx_r, nruns_r, exit_info, di, xnum, jnums = ret
        E.prove(nruns_r == nruns0 + 1, 'C10:x0-exit:nruns-incremented-once')
        isfloat = (rr.dtype == 'f') if E.symbolic else (str(rr.dtype) == 'float64')
        keep_rr = [v for v in E.flat(rr)]
        for c in log.calls:
            c['r'][0] = c['r'][0] + 1          # the caller goes on using its own arrays
        E.prove(isfloat and E.all([E.same(p_, q_) for p_, q_ in zip(E.flat(rr), keep_rr)]), 'C20:x0-exit:resid-is-the-solver-own-float64-array')
        for c in log.calls:
            c['r'][0] = c['r'][0] - 1
        E.prove(E.all([E.eq(rr[j], mean[j]) for j in range(m)]), 'C03:x0-exit:resid-is-mean-of-samples')
        E.prove(xnum == nx1, 'C03:x0-exit:xmin_eval_num-is-the-point-number-of-x0')
        f = sum(v * v for v in mean)
        if with_h:
            f = f + h(x0)
        E.prove(E.eq(obj, f), 'C03:x0-exit:obj-is-sumsq-plus-h')
        if exit_info.flag == E.get('EXIT_MAXFUN_WARNING'):
            E.prove(nf1 == maxfun, 'C10:x0-exit:maxfun-message-is-true')
        if exit_info.flag == E.get('EXIT_SUCCESS'):
            E.prove(E.le(f, params("model.abs_tol"), tol=0), 'C10:x0-exit:small-objective-exit-is-true')
            if with_h:
                E.prove(E.le(f, params("model.abs_tol"), tol=0), 'C06:x0-exit:small-objective-test-includes-h')


def body_restart_admission(E, n, m, preset):
    """soft_restart requests no evaluation when the budget is spent or the restart limit is reached"""
    log = EvalLog()
    objfun = mk_objfun(E, m, log)
    C, M, ghost, params = mk_controller(E, n, m, n + 1, n + 1, preset=preset, with_save=False, objfun=objfun)
    nruns = E.int('nruns', 0, None)
    E.assume(C.last_successful_run <= nruns)
    nf0 = C.nf
    lim = params("restarts.max_unsuccessful_restarts")

    def geometry_step(self, knew, adelt, number_of_samples, params):
        raise Stop('geometry_step')
    E.get('Controller').geometry_step = geometry_step
    spent = (C.nf >= C.maxfun)
    improved = M.objopt() < C.last_run_fopt
    lsr0 = C.last_successful_run
    try:
        exit_info = C.soft_restart(1, nruns, params)
        proceeded = False
    except Stop:
        proceeded = True
        exit_info = None
    E.prove(len(log.calls) == 0, 'no-evaluation-before-admission')
    unsuccessful = nruns - E.ite(improved, nruns, lsr0)
    if proceeded:
        E.prove(E.no(spent), 'restart-admitted-only-with-budget-left')
        E.prove(unsuccessful < lim, 'restart-admitted-only-below-unsuccessful-limit')
    else:
        E.prove(exit_info is not None, 'refusal-returns-exit-info')
        E.prove(E.any([spent, unsuccessful >= lim]), 'refusal-has-a-reason')
        if exit_info is not None and exit_info.flag == E.get('EXIT_MAXFUN_WARNING'):
            E.prove(C.nf == C.maxfun, 'C10:maxfun-message-is-true')
        if exit_info is not None and exit_info.flag == E.get('EXIT_SUCCESS'):
            E.prove(unsuccessful >= lim, 'C10:max-unsuccessful-restarts-message-is-true')


FUNCS = ['controller.Controller.evaluate_objective', 'util.eval_least_squares_with_regularisation', 'solver.solve_main',
         'controller.Controller.soft_restart', 'model.Model.min_objective_value', 'controller.ExitInformation']


def scan_sites():
    """every objective-evaluation site must be inside a function some harness executes"""
    errs = []
    direct = loader.scan_calls('solver', {'eval_least_squares_with_regularisation'}) + \
        loader.scan_calls('controller', {'eval_least_squares_with_regularisation'}) + \
        loader.scan_calls('model', {'eval_least_squares_with_regularisation'})
    allowed_direct = {('solve_main',), ('Controller.evaluate_objective',)}
    for (where, name, line) in direct:
        if (where,) not in allowed_direct:
            errs.append("unencoded direct evaluation site %s (line %d)" % (where, line))
    raw = []
    for mod in ('solver', 'controller', 'model', 'trust_region', 'util', 'diagnostic_info'):
        for (where, name, line) in loader.scan_calls(mod, {'objfun', 'self.objfun'}):
            raw.append((mod, where, line))
    for (mod, where, line) in raw:
        if (mod, where) != ('util', 'eval_least_squares_with_regularisation'):
            errs.append("objfun called outside eval_least_squares_with_regularisation: %s.%s line %d" % (mod, where, line))
    sites = loader.scan_calls('solver', {'evaluate_objective'}) + loader.scan_calls('controller', {'evaluate_objective'})
    return errs, {'direct_eval_sites': len(direct), 'evaluate_objective_sites': len(sites), 'objfun_call_sites': len(raw)}


def harnesses(tier, seed):
    hs = []
    cfg = core.Cfg(qtimeout_ms=20000, uflin=True)
    dims = [(1, 1)] if tier == 'quick' else [(1, 1), (2, 1), (1, 2)]
    common = ["objective stub returns a fresh residual vector per call", "symbolic*symbolic products abstracted (UF with sign axioms): the counter obligations are linear integer arithmetic",
              "sample request <= 3 per point (the loop body is identical per sample: first / middle / last, budget ending at each position)"]
    for (n, m) in dims:
        for with_h in (False, True):
            for preset in (('default',) if tier == 'quick' else ('default', 'noise')):
                hs.append(Harness("evaluate_objective[n=%d,m=%d,h=%d,%s]" % (n, m, with_h, preset), 'dfverif.checks.c02', 'body_evalobj',
                                  params=dict(n=n, m=m, with_h=with_h, preset=preset), cfg=cfg, functions=FUNCS,
                                  bounds="n=%d, m=%d, any nx <= nf <= maxfun, 1..3 samples requested" % (n, m), assumptions=common,
                                  expect=['nf-counts-calls', 'logged-eval-numbers-consecutive', 'short-count-means-budget-exhausted'], nproc=1))
            if not with_h:
                hs.append(Harness("evaluate_objective[n=%d,m=%d,h=0,default,long-x-log-format]" % (n, m), 'dfverif.checks.c02', 'body_evalobj',
                                  params=dict(n=n, m=m, with_h=False, preset='default', long_x=True), cfg=cfg, functions=FUNCS,
                                  bounds="n=%d, m=%d, any nx <= nf <= maxfun, 1..3 samples requested; log lines in the format used for n >= logging.n_to_print_whole_x_vector" % (n, m),
                                  assumptions=common, expect=['nf-counts-calls', 'logged-eval-numbers-consecutive'], nproc=1))
            hs.append(Harness("evaluate_objective[n=%d,m=%d,h=%d,default,scaling]" % (n, m, with_h), 'dfverif.checks.c02', 'body_evalobj',
                              params=dict(n=n, m=m, with_h=with_h, preset='default', scaling=True), cfg=core.Cfg(qtimeout_ms=20000, uflin=True), functions=FUNCS,
                              bounds="n=%d, m=%d, internal scaling record (lower, upper-lower, upper) symbolic" % (n, m), assumptions=common,
                              expect=['nf-counts-calls'], nproc=1))
            if not with_h:
                hs.append(Harness("evaluate_objective[n=%d,m=%d,h=0,default,bad-values]" % (n, m), 'dfverif.checks.c02', 'body_evalobj',
                                  params=dict(n=n, m=m, with_h=False, preset='default', xr=True), cfg=core.Cfg(qtimeout_ms=20000, uflin=True), functions=FUNCS,
                                  bounds="n=%d, m=%d, residuals and f(x0) NaN / +-inf / finite, 1..3 samples" % (n, m), assumptions=common,
                                  expect=['nf-counts-calls'], nproc=1))
            for r0_old in (False, True):
                hs.append(Harness("x0-block[n=%d,m=%d,h=%d,old=%d]" % (n, m, with_h, r0_old), 'dfverif.checks.c02', 'body_x0block',
                                  params=dict(n=n, m=m, with_h=with_h, r0_old=r0_old), cfg=cfg, functions=FUNCS,
                                  bounds="n=%d, m=%d, any nx0 <= nf0 < maxfun, callback result in [-1,3]" % (n, m), assumptions=common,
                                  expect=['nf-counts-calls'] if not r0_old else ['recycled-x0-costs-no-evaluation'], nproc=1))
        for preset in ('soft-restarts', 'noise'):
            hs.append(Harness("soft-restart-admission[n=%d,m=%d,%s]" % (n, m, preset), 'dfverif.checks.c02', 'body_restart_admission',
                              params=dict(n=n, m=m, preset=preset), cfg=cfg, functions=FUNCS,
                              bounds="any state, any nruns >= last_successful_run", assumptions=common,
                              expect=['no-evaluation-before-admission', 'restart-admitted-only-with-budget-left'], nproc=1))
    return hs


def run(tier, seed):
    errs, cov = scan_sites()
    hs = harnesses(tier, seed)
    from .. import step, outer, runstart
    hs = hs + step.harnesses_for('C02', tier, seed) + step.action_harnesses(tier, seed, 'C02') + outer.outer_harnesses(tier, seed, 'C02') + runstart.start_harnesses(tier, seed, 'C02')
    return run_property(
        'C02', hs, tier, seed, extra_errors=errs, extra_cov={'call_site_scan': cov},
        explanation="Symbolic execution (z3, linear integer arithmetic + UF) of the real evaluate_objective, the x0-sampling block "
                    "of solve_main, soft_restart's admission test and (STEP harness) one whole main-loop iteration from an arbitrary "
                    "state: calls made = nf increase <= requested, nf <= maxfun, point number advances once per point, every sample of a "
                    "point receives the identical x, eval/point numbers in the log are consecutive, short counts only when the budget is "
                    "exhausted. An AST scan checks that objfun is called nowhere else.")
