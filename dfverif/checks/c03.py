"""
C03 - the returned solution is a point that was really evaluated.

STEP (record integrity: every slot / the saved slot / the returned tuple is one whole evaluated record with its
own evaluation number), the x0-exit of solve_main, and OUTER (merge of hard-restart runs, un-scaling).
"""
from ..harness import Harness, run_property
from .. import core, step, outer, runstart
from . import c02


def shared_c02_harnesses(tier, which=('x0', 'evalobj', 'admission')):
    hs = []
    for h in c02.harnesses(tier, 0):
        if ('x0' in which and h.name.startswith('x0-block')) or ('evalobj' in which and h.name.startswith('evaluate_objective')) or \
                ('admission' in which and h.name.startswith('soft-restart-admission')):
            h.home = 'C02'
            h.expect = []
            hs.append(h)
    return hs


def model_record_harnesses(tier, seed):
    """C17's one-operation harnesses for the operations that write or read whole records, with a regulariser and internal scaling
    (h must see the point in the user's units): the saved / returned (x, resid, obj) stay one record"""
    from . import c17
    hs = []
    for h in c17.model_harnesses('quick', seed):
        if h.params.get('scaling') and h.params['op'] in ('save_point_abs', 'save_point_rel', 'get_final_results', 'change_point', 'add_new_sample', 'add_new_point'):
            h.home = 'C03'
            h.name = 'model:' + h.name
            hs.append(h)
    return hs


def harnesses(tier, seed):
    return step.step_harnesses(tier, seed, 'C03') + step.action_harnesses(tier, seed, 'C03') + shared_c02_harnesses(tier, ('x0',)) + \
        outer.outer_harnesses(tier, seed, 'C03') + runstart.start_harnesses(tier, seed, 'C03') + model_record_harnesses(tier, seed)


def run(tier, seed):
    return run_property(
        'C03', harnesses(tier, seed), tier, seed,
        explanation="Ghost-record integrity by symbolic execution (z3 LRA+UF, counterexamples refined under exact NRA and replayed): "
                    "after one whole main-loop iteration from any state, every interpolation slot, the saved slot and - at every exit - the "
                    "tuple returned by get_final_results equal one whole record (x, mean residual, sample count, evaluation number) of a point "
                    "evaluated before or during the iteration, and obj = sumsq(resid)+h(x); the x0 exit and the merge of hard-restart runs "
                    "(with un-scaling) keep x, resid, obj and the evaluation number together.")
