"""
C04 - the best point ever evaluated is never lost (deterministic objective, no averaging).
"""
from ..harness import run_property
from .. import step, outer, runstart


def body_ratio(E, n, with_h, scaling):
    """Controller.calculate_ratio: a positive ratio (the licence to overwrite ANY point, the incumbent included, with the trial point)
    is only reported when the trial point is really better than the incumbent in sum(r^2)+h"""
    from ..state import mk_controller, objective
    np = E.np
    C, M, ghost, params = mk_controller(E, n, 1, n + 1, n + 1, with_h=with_h, with_save=False, objfun=None, scaling=scaling, kopt_minimal=False)
    d = E.vec('d', n)
    gopt = E.vec('g', n)
    H = E.mat('H', n, n)
    for i in range(n):
        for j in range(i):
            H[i, j] = H[j, i]
    r = E.vec('rt', 1)
    rl = np.zeros((1, 1))
    rl[0, :] = r
    x = M.xopt(abs_coordinates=True)
    trial = objective(E, M, r, x + d)
    old = M.objopt()
    ratio, exit_info = C.calculate_ratio(x, E.int('iter', 0, None), rl, d, gopt, H)
    if exit_info is None:
        E.prove(E.implies(ratio > 0, trial < old), 'C04:ratio:positive-ratio-only-for-a-better-trial-point')
        if with_h:
            E.prove(E.implies(ratio > 0, trial < old), 'C06:ratio:actual-reduction-includes-the-change-of-h')
    E.reach('ratio:checked')


def harnesses(tier, seed):
    from ..harness import Harness
    from .. import core
    hs = []
    for (n, with_h, scaling) in ([(1, False, False), (1, True, False), (1, True, True)] + ([] if tier == 'quick' else [(2, True, True), (2, False, False)])):
        hs.append(Harness("ratio[n=%d,h=%d,scaling=%d]" % (n, with_h, scaling), 'dfverif.checks.c04', 'body_ratio', params=dict(n=n, with_h=with_h, scaling=scaling),
                          cfg=core.Cfg(qtimeout_ms=20000, uflin=True), functions=['controller.Controller.calculate_ratio', 'util.model_value'],
                          bounds="n=%d, m=1, one sample; model gradient / Hessian / step / trial residual symbolic; regulariser family lam*sum|x_i-c_i|" % n,
                          assumptions=["products, quotients: uninterpreted with sign axioms (counterexamples re-checked exactly and replayed)"], home='C04', nproc=1, max_replays=2))
    # the comparison 'saved point vs incumbent' is made on stored objective values: they must be F(record) - also with a regulariser under
    # internal scaling - or the better of the two is dropped (C17's save_point / get_final_results harnesses)
    from . import c17
    for h in c17.model_harnesses('quick', seed):
        if h.params['op'] in ('save_point_abs', 'save_point_rel', 'get_final_results') and h.params['npt_so_far'] == h.params['num_pts'] and \
                (h.params.get('scaling') or not h.params['with_h']):
            h.home = 'C04'
            h.name = 'model:' + h.name
            hs.append(h)
    return hs + step.step_harnesses(tier, seed, 'C04') + step.action_harnesses(tier, seed, 'C04') + outer.outer_harnesses(tier, seed, 'C04') + runstart.start_harnesses(tier, seed, 'C04')


def run(tier, seed):
    return run_property(
        'C04', harnesses(tier, seed), tier, seed,
        explanation="One whole main-loop iteration of the real solve_main from any valid state (z3 LRA+UF): at every `continue` and at "
                    "every exit the value get_final_results would report is <= its value before the iteration and <= the objective of "
                    "every point evaluated during the iteration (including exits between evaluation and model update); OUTER: the merged "
                    "result of hard-restart runs is <= every run's result and each restart begins at the best point so far. By induction "
                    "soln.obj <= f at every evaluated point.")
