"""
C04 - the best point ever evaluated is never lost (deterministic objective, no averaging).
"""
from ..harness import run_property
from .. import step, outer, runstart


def harnesses(tier, seed):
    return step.step_harnesses(tier, seed, 'C04') + step.action_harnesses(tier, seed, 'C04') + outer.outer_harnesses(tier, seed, 'C04') + runstart.start_harnesses(tier, seed, 'C04')


def run(tier, seed):
    return run_property(
        'C04', harnesses(tier, seed), tier, seed,
        explanation="One whole main-loop iteration of the real solve_main from any valid state (z3 LRA+UF): at every `continue` and at "
                    "every exit the value get_final_results would report is <= its value before the iteration and <= the objective of "
                    "every point evaluated during the iteration (including exits between evaluation and model update); OUTER: the merged "
                    "result of hard-restart runs is <= every run's result and each restart begins at the best point so far. By induction "
                    "soln.obj <= f at every evaluated point.")
