"""
C06 - convex regularised least squares (PARTIAL: the convergence clause is not decided, see DESIGN section 6).

Decided:
 (a) calling convention: the real ctrsbox_sfista / model_value / Controller.trust_region_step /
     evaluate_criticality_measure call h(x, *argsh) and prox_uh(x, u, *argsprox) with the user's extra arguments
     unchanged, for argsh/argsprox of length 0..2, and never raise TypeError;
 (b) the box handed to the regularised subproblem is the TRUE bound box in the coordinates of the point handed over;
 (c) the step handed back never has a negative predicted reduction (shared with C13).
"""
from ..harness import Harness, run_property
from .. import core
from ..state import mk_controller
from . import c13


def body_convention(E, n, nh, nprox):
    np = E.np
    xopt = E.vec('xo', n)
    g = E.vec('g', n)
    H = E.mat('H', n, n)
    if n == 2:
        H[1, 0] = H[0, 1]
    delta = E.real('delta', npy=False)
    Lh = E.real('Lh', npy=False)
    E.assume(E.all([delta > 0, Lh > 0]))
    argsh = tuple(E.real('ah%d' % i, npy=False) for i in range(nh))
    argsprox = tuple(E.real('ap%d' % i, npy=False) for i in range(nprox))
    hcalls, pcalls = [], []

    def h(x, *a):
        hcalls.append(a)
        return 0 * x[0]

    def prox(x, u, *a):
        pcalls.append((u, a))
        return x
    E.cap_loops(2)
    E.patch('dykstra', lambda P, x0, max_iter=100, tol=1e-10: x0.copy())
    E.hooks(la=lambda name, args, kw: E.real('normH', lo=0) if name == 'norm2' else NotImplemented)
    try:
        d, gnew, crvmin = E.get('ctrsbox_sfista')(xopt, g, H, [lambda w: w], delta, h, Lh, prox, argsh=argsh, argsprox=argsprox,
                                                   func_tol=E.const('0.001'), max_iters=2, use_fortran=False)
    except TypeError as e:
        E.fail('convention:raises-TypeError[len(argsprox)=%d]' % nprox, detail=str(e)[:160])
        return
    E.prove(len(hcalls) >= 1 and len(pcalls) >= 1, 'convention:h-and-prox-are-called')
    E.prove(all(len(a) == nh and all(p is q for p, q in zip(a, argsh)) for a in hcalls) if E.symbolic else
            all(len(a) == nh and all(float(p) == float(q) for p, q in zip(a, argsh)) for a in hcalls), 'convention:h(x,*argsh)')
    E.prove(all(len(a) == nprox and all(p is q for p, q in zip(a, argsprox)) for (_, a) in pcalls) if E.symbolic else
            all(len(a) == nprox and all(float(p) == float(q) for p, q in zip(a, argsprox)) for (_, a) in pcalls), 'convention:prox_uh(x,u,*argsprox)')
    E.prove(E.all([u > 0 for (u, _) in pcalls]), 'convention:smoothing-parameter-positive')


def body_box(E, n, which):
    """the projector list handed to S-FISTA, applied to an arbitrary point in the coordinates of the first argument,
    equals clip(., xl, xu) for the user's (absolute) bounds"""
    np = E.np
    C, M, ghost, params = mk_controller(E, n, 1, n + 1, n + 1, with_h=True, with_save=False, objfun=None)
    w = E.vec('w', n)
    seen = {}
    AH, AP = ('extra-argument-of-h',), ('extra-argument-of-prox',)
    C.argsh, M.argsh, C.argsprox = AH, AH, AP

    def sfista(xopt, g, H, projections, delta, h, L_h, prox_uh, **kw):
        seen['xopt'] = xopt.copy()
        seen['P'] = list(projections)
        seen['argsh'] = kw.get('argsh')
        seen['argsprox'] = kw.get('argsprox')
        seen['prox'] = prox_uh
        return E.vec('dS', n), E.vec('gS', n), E.real('crv')
    E.patch('ctrsbox_sfista', sfista)
    E.hooks(la=lambda name, args, kw: E.real('normH', lo=0) if name == 'norm2' else NotImplemented)   # spectral norm of H: LAPACK-level for n >= 2
    if which == 'step':
        C.trust_region_step(params, E.real('crit', npy=False, lo=0))
    else:
        C.evaluate_criticality_measure(params)
    E.prove('P' in seen and len(seen['P']) == 1, 'box:one-projector-for-bound-constraints')
    E.prove(seen.get('argsh') is AH and seen.get('argsprox') is AP and seen.get('prox') is C.prox_uh,
            'box:extra-arguments-of-h-and-prox-forwarded-unchanged[%s]' % which)
    if 'P' not in seen:
        return
    xl, xu = M.xbase + M.sl, M.xbase + M.su
    xo_abs = M.xbase + M.points[int(M.kopt), :]
    E.prove(E.all([E.eq(seen['xopt'][i], xo_abs[i]) for i in range(n)]), 'box:point-handed-over-is-in-absolute-coordinates')
    out = seen['P'][0](w)
    exp = [E.ite(w[i] < xl[i], xl[i], E.ite(w[i] > xu[i], xu[i], w[i])) for i in range(n)]
    E.prove(E.all([E.eq(out[i], exp[i]) for i in range(n)]), 'box:projector-is-the-true-box-in-those-coordinates[%s]' % which)


FUNCS = ['trust_region.ctrsbox_sfista', 'util.model_value', 'controller.Controller.trust_region_step',
         'controller.Controller.evaluate_criticality_measure', 'util.pbox']


def harnesses(tier, seed):
    hs = []
    q = 20000
    for n in ([1] if tier == 'quick' else [1, 2]):
        for nh in (0, 1, 2):
            for nprox in (0, 1, 2):
                if tier == 'quick' and (nh, nprox) not in ((0, 0), (1, 1), (0, 2), (2, 0)):
                    continue
                hs.append(Harness("convention[n=%d,len(argsh)=%d,len(argsprox)=%d]" % (n, nh, nprox), 'dfverif.checks.c06', 'body_convention',
                                  params=dict(n=n, nh=nh, nprox=nprox), cfg=core.Cfg(qtimeout_ms=q, uflin=True), functions=FUNCS,
                                  bounds="n=%d, S-FISTA loop cut to 2 iterations (the calls are the same in every iteration)" % n,
                                  assumptions=["dykstra stubbed (identity); h, prox_uh are recording stubs"], expect=['convention:h(x,*argsh)'], nproc=1))
        for which in ('step', 'criticality'):
            hs.append(Harness("true-box[%s,n=%d]" % (which, n), 'dfverif.checks.c06', 'body_box', params=dict(n=n, which=which),
                              cfg=core.Cfg(fork_queries=True, qtimeout_ms=q), functions=FUNCS,
                              bounds="n=%d, m=1, any model state (any base point, any box containing the points)" % n,
                              assumptions=["ctrsbox_sfista stubbed: captures its arguments"], expect=['box:projector-is-the-true-box-in-those-coordinates[%s]' % which], nproc=1))
    hs += [h for h in c13.harnesses(tier, seed) if h.name.startswith('regularised-step')]
    from .c03 import shared_c02_harnesses
    hs += [h for h in shared_c02_harnesses(tier, ('evalobj', 'x0')) if 'h=1' in h.name]
    for h in hs:
        if h.name.startswith('regularised-step'):
            h.home = 'C06'
    # "objective values include h at the stored point": every Model operation that writes an objective value, with a regulariser
    # (and with internal scaling, where h must see the user's units) - C17's one-operation harnesses
    from . import c17
    for h in c17.model_harnesses('quick', seed):
        if h.params['with_h'] and h.params['npt_so_far'] == h.params['num_pts'] and \
                h.params['op'] in ('change_point', 'add_new_sample', 'add_new_point', 'save_point_abs', 'save_point_rel', 'get_final_results'):
            h.home = 'C06'
            h.name = 'model:' + h.name
            hs.append(h)
    from . import c04
    hs += [h_ for h_ in c04.harnesses('quick', seed) if h_.name.startswith('ratio[') and 'h=1' in h_.name]
    for h in hs:
        if h.name.startswith('ratio['):
            h.home = 'C06'
    return hs


def run(tier, seed):
    return run_property(
        'C06', harnesses(tier, seed), tier, seed,
        explanation="PARTIAL. Decided by symbolic execution (z3) of the real code: calling convention of h/prox_uh with extra arguments, "
                    "the true bound box reaches the regularised subproblem, non-negative predicted reduction of the returned step. NOT "
                    "decided: 'within 1e-3*(1+F*) of the optimum and success' - a convergence claim over whole runs (DESIGN section 6).")
