"""
C07 - solve always returns a well-formed result; bad input is reported, not raised.

The real `solve` is executed symbolically up to its call of solve_main (stubbed to end the path):
prologue, scaling, parameter construction, the whole validation block and the graceful
input-error return.  Argument *kinds* (None / int / float / bool / str) are enumerated, their
magnitudes are symbolic.  Oracle: the property's list of invalid inputs, written below as the
predicate BAD (independent of the order of the tests in the code) and a golden table of
parameter types/ranges.
"""
import os
import re

from ..harness import Harness, run_property, Stop
from .. import core, sym, loader

# golden specification of user parameters: key -> (type, None allowed, lower, upper); 'NPT' = the npt argument
SPEC = {
    "general.rounding_error_constant": ('float', False, 0.0, None),
    "general.safety_step_thresh": ('float', False, 0.0, None),
    "general.check_objfun_for_overflow": ('bool', False, None, None),
    "init.random_initial_directions": ('bool', False, None, None),
    "init.run_in_parallel": ('bool', False, None, None),
    "init.random_directions_make_orthogonal": ('bool', False, None, None),
    "interpolation.precondition": ('bool', False, None, None),
    "interpolation.throw_error_on_nans": ('bool', False, None, None),
    "logging.n_to_print_whole_x_vector": ('int', False, 0, None),
    "logging.save_diagnostic_info": ('bool', False, None, None),
    "logging.save_poisedness": ('bool', False, None, None),
    "logging.save_xk": ('bool', False, None, None),
    "logging.save_rk": ('bool', False, None, None),
    "tr_radius.eta1": ('float', False, 0.0, 1.0),
    "tr_radius.eta2": ('float', False, 0.0, 1.0),
    "tr_radius.gamma_dec": ('float', False, 0.0, 1.0),
    "tr_radius.gamma_inc": ('float', False, 1.0, None),
    "tr_radius.gamma_inc_overline": ('float', False, 1.0, None),
    "tr_radius.alpha1": ('float', False, 0.0, 1.0),
    "tr_radius.alpha2": ('float', False, 0.0, 1.0),
    "model.abs_tol": ('float', False, 0.0, None),
    "model.rel_tol": ('float', False, 0.0, 1.0),
    "slow.history_for_slow": ('int', False, 1, None),      # (0 made the slow-iteration test divide by zero: fixed in /repo, range now starts at 1)
    "slow.thresh_for_slow": ('float', False, 0.0, None),
    "slow.max_slow_iters": ('int', False, 0, None),
    "noise.quit_on_noise_level": ('bool', False, None, None),
    "noise.scale_factor_for_quit": ('float', False, 0.0, None),
    "noise.multiplicative_noise_level": ('float', True, 0.0, None),
    "noise.additive_noise_level": ('float', True, 0.0, None),
    "regression.num_extra_steps": ('int', False, 0, None),
    "regression.increase_num_extra_steps_with_restart": ('int', False, 0, None),
    "regression.momentum_extra_steps": ('bool', False, None, None),
    "restarts.use_restarts": ('bool', False, None, None),
    "restarts.max_unsuccessful_restarts": ('int', False, 0, None),
    "restarts.rhoend_scale": ('float', False, 0.0, None),
    "restarts.use_soft_restarts": ('bool', False, None, None),
    "restarts.soft.num_geom_steps": ('int', False, 0, None),
    "restarts.soft.move_xk": ('bool', False, None, None),
    "restarts.soft.max_fake_successful_steps": ('int', False, 1, None),
    "restarts.hard.use_old_rk": ('bool', False, None, None),
    "restarts.increase_npt": ('bool', False, None, None),
    "restarts.increase_npt_amt": ('int', False, 0, None),
    "restarts.hard.increase_ndirs_initial_amt": ('int', False, 0, None),
    "restarts.max_npt": ('int', False, 'NPT', None),
    "restarts.auto_detect": ('bool', False, None, None),
    "restarts.auto_detect.history": ('int', False, 1, None),
    "restarts.auto_detect.min_chgJ_slope": ('float', False, 0.0, None),
    "restarts.auto_detect.min_correl": ('float', False, 0.0, 1.0),
    "growing.ndirs_initial": ('int', False, 1, 'NPT-1'),
    "growing.num_new_dirns_each_iter": ('int', False, 0, None),
    "growing.delta_scale_new_dirns": ('float', False, 0.0, None),
    "growing.do_geom_steps": ('bool', False, None, None),
    "growing.reset_delta": ('bool', False, None, None),
    "growing.reset_rho": ('bool', False, None, None),
    "growing.gamma_dec": ('float', False, 0.0, 1.0),
    "growing.safety.do_safety_step": ('bool', False, None, None),
    "growing.safety.reduce_delta": ('bool', False, None, None),
    "growing.safety.full_geom_step": ('bool', False, None, None),
    "growing.full_rank.use_full_rank_interp": ('bool', False, None, None),
    "growing.full_rank.scale_factor": ('float', True, 0.0, None),
    "growing.full_rank.min_sing_val": ('float', True, 0.0, 1.0),
    "growing.full_rank.svd_scale_factor": ('float', True, 0.0, 1.0),
    "growing.full_rank.svd_max_jac_cond": ('float', True, 1.0, None),
    "growing.perturb_trust_region_step": ('bool', False, None, None),
    "dykstra.d_tol": ('float', False, 0.0, None),
    "dykstra.max_iters": ('int', False, 0, None),
    "matrix_rank.r_tol": ('float', False, 0.0, None),
    "func_tol.criticality_measure": ('float', False, 0.0, 1.0),
    "func_tol.tr_step": ('float', False, 0.0, 1.0),
    "func_tol.max_iters": ('int', False, 0, None),
    "sfista.max_iters_scaling": ('float', False, 1.0, None),
}
KEYS = sorted(SPEC.keys())
KINDS = ['none', 'bool', 'int', 'float', 'str']


def documented_exit_names():
    path = os.path.join(loader.REPO, 'docs', 'userguide.rst')
    with open(path) as f:
        txt = f.read()
    return sorted(set(re.findall(r'soln\.(EXIT_[A-Z_]+)', txt)))


def documented_param_keys():
    path = os.path.join(loader.REPO, 'docs', 'advanced.rst')
    with open(path) as f:
        txt = f.read()
    return sorted(set(re.findall(r'^\* :code:`([a-z_0-9.A-Z]+)` - ', txt, flags=re.M)))


def _val_of_kind(E, kind, name):
    if kind == 'none':
        return None
    if kind == 'bool':
        return True if E.is_true(E.bool(name + '_b')) else False
    if kind == 'int':
        return E.int(name + '_i', -3, 12)
    if kind == 'float':
        return E.real(name + '_f', npy=False)
    return "a string"


def _spec_ok(E, key, kind, val, npt):
    """golden verdict: is (kind, val) an acceptable value for key?  returns bool-like, or None if unspecified"""
    t, none_ok, lo, hi = SPEC[key]
    if kind == 'none':
        # None as a *new value* means "do not change" in ParameterList.__call__: the default stays
        return True
    if t == 'bool':
        return kind == 'bool'
    if kind == 'bool':
        return None if t == 'int' else False     # bool is an int subclass in Python: unspecified
    if kind == 'str':
        return False
    if t == 'int' and kind != 'int':
        return False
    if t == 'float' and kind != 'float':
        return False
    conds = []
    if lo is not None:
        conds.append(val >= (npt if lo == 'NPT' else lo))
    if hi is not None:
        conds.append(val <= ((npt - 1) if hi == 'NPT-1' else hi))
    return E.all(conds)


def _call_solve(E, kwargs, x0, unknown_key=False):
    """-> ('result', soln) | ('proceeded', None) | ('raised', exc)"""
    reached = []

    def solve_main_stub(*a, **k):
        reached.append(1)
        raise Stop('solve_main')
    E.patch('solve_main', solve_main_stub)
    solve = E.get('solve')
    objfun = lambda x, *a: x
    try:
        soln = solve(objfun, x0, **kwargs)
        return 'result', soln
    except Stop:
        return 'proceeded', None
    except ValueError as e:
        return 'raised', e
    except Exception as e:
        return 'raised', e


def _check_error_result(E, soln, label):
    INPUT_ERROR = E.get('EXIT_INPUT_ERROR')
    E.prove(soln.flag == INPUT_ERROR, label + ':flag-is-input-error')
    E.prove(E.all([soln.nf == 0, soln.nx == 0]), label + ':zero-evaluations')
    E.prove(isinstance(soln.msg, str) and len(soln.msg) > 0, label + ':message-non-empty')
    try:
        txt = E.get('OptimResults').__str__(soln) if E.symbolic else str(soln)
        E.prove(len(txt) > 0, label + ':prints')
    except Exception as e:
        E.fail(label + ':printing-raises-' + type(e).__name__)
    for nm in documented_exit_names():
        E.prove(hasattr(soln, nm), 'result-exposes-' + nm)


def _judge(E, kind_out, out, bad, good, label, expect_valueerror=False):
    """bad / good: bool-like (symbolic) predicates; obligations on the outcome of solve"""
    if kind_out == 'raised':
        if expect_valueerror and isinstance(out, ValueError):
            E.prove(True, label + ':unknown-key-raises-ValueError')
            return
        E.fail(label + ':raises-' + type(out).__name__, detail=str(out)[:200])
        return
    if expect_valueerror:
        E.fail(label + ':unknown-key-raises-ValueError')
        return
    if kind_out == 'result':
        is_err = (out.flag == E.get('EXIT_INPUT_ERROR'))
        if E.is_true(is_err):
            E.prove(E.no(good), label + ':good-input-not-rejected')
            _check_error_result(E, out, label)
        else:
            E.prove(E.no(bad), label + ':bad-input-is-reported')
    else:
        E.prove(E.no(bad), label + ':bad-input-is-reported')
        E.reach(label + ':proceeded')


def body_args(E, n, bounds_kind, with_h, with_proj):
    """argument validation: radii, npt, maxfun, bounds, regulariser arguments"""
    x0 = E.vec('x0_', n, lo=-10 ** 15, hi=10 ** 15)   # magnitudes near the 1e20 'infinite bound' sentinel are outside the claim
    kwargs = {}
    bad, good = [], []
    npt = None
    if E.is_true(E.bool('npt_given')):
        npt = E.int('npt', -1, 2 * n + 3)
        kwargs['npt'] = npt
        bad.append(npt < n + 1)
    npt_eff = npt if npt is not None else n + 1
    rhoend = E.real('rhoend', npy=False, hi=10 ** 15)
    kwargs['rhoend'] = rhoend
    scaling = bool(E.is_true(E.bool('scaling')))
    kwargs['scaling_within_bounds'] = scaling
    scaling_eff = scaling and bounds_kind == 'both' and not with_proj
    if E.is_true(E.bool('rhobeg_given')):
        rhobeg = E.real('rhobeg', npy=False, hi=10 ** 15)
        kwargs['rhobeg'] = rhobeg
    else:
        rhobeg = None
    if E.is_true(E.bool('maxfun_given')):
        maxfun = E.int('maxfun', -2, 50)
        kwargs['maxfun'] = maxfun
        bad.append(maxfun <= 0)
    xl = xu = None
    if bounds_kind in ('lower', 'both'):
        xl = E.vec('xl', n)
    if bounds_kind in ('upper', 'both'):
        xu = E.vec('xu', n)
    if bounds_kind != 'none':
        kwargs['bounds'] = (xl, xu)
    if scaling_eff:
        # inverted / degenerate boxes together with internal scaling: unspecified, keep them out
        E.assume(E.all([xl[i] < xu[i] for i in range(n)]))
    # effective rhobeg (documented default)
    if rhobeg is None:
        if scaling_eff:
            rb = E.const('0.1')
        else:
            mx = 1
            for i in range(n):
                a = E.ite(x0[i] >= 0, x0[i], -x0[i])
                mx = E.ite(a > mx, a, mx)
            rb = E.const('0.1') * mx
    else:
        rb = rhobeg
        bad.append(rb <= 0)
    # thresholds compared in floating point by the code: keep a 1e-9 relative band around them unspecified
    def absv(v):
        return E.ite(v >= 0, v, -v)

    def below(a, b):   # a < b, clearly
        return a < b - E.const('1e-9') * (1 + absv(b))

    def near(a, b):
        m = E.const('1e-9') * (1 + absv(b))
        return E.all([a >= b - m, a <= b + m])
    bad.append(rhoend <= 0)
    bad.append(below(rb, rhoend))
    gray = [near(rb, rhoend)]
    # the box the solver works with: missing sides (and every side when projections are given) are +-1e20
    big = E.const(10 ** 20)
    if scaling_eff:
        bad.append(below(1, 2 * rb))
        gray.append(near(1, 2 * rb))
    else:
        for i in range(n):
            lo_i = xl[i] if (xl is not None and not with_proj) else -big
            hi_i = xu[i] if (xu is not None and not with_proj) else big
            bad.append(below(hi_i - lo_i, 2 * rb))
            gray.append(near(hi_i - lo_i, 2 * rb))
    if with_h:
        kwargs['h'] = lambda x, *a: 0
        if E.is_true(E.bool('prox_given')):
            kwargs['prox_uh'] = lambda x, u, *a: x
        else:
            bad.append(True)
        if E.is_true(E.bool('lh_given')):
            lh = E.real('lh', npy=False)
            kwargs['lh'] = lh
            bad.append(lh <= 0)
        else:
            bad.append(True)
    if with_proj:
        kwargs['projections'] = [lambda w: w]
        E.patch('dykstra', lambda P, x, max_iter=100, tol=1e-10: x.copy())
    BAD = E.any(bad)
    GOOD = E.all([E.no(BAD)] + [E.no(g) for g in gray])
    kind_out, out = _call_solve(E, kwargs, x0)
    _judge(E, kind_out, out, BAD, GOOD, 'args')


def body_bound_shapes(E, n, which, scaling, with_proj):
    """a bound array whose length differs from len(x0) is invalid input: reported as an input error - also when the bounds are used for
    internal scaling or turned into a box projector before the shape test is reached"""
    x0 = E.vec('x0_', n, lo=-1000, hi=1000)
    xl = E.vec('xl', n + (1 if which in ('lower', 'both') else 0), lo=-3000, hi=-2000)
    xu = E.vec('xu', n + (1 if which in ('upper', 'both') else 0), lo=2000, hi=3000)
    kwargs = dict(bounds=(xl, xu), scaling_within_bounds=scaling, rhobeg=E.const('0.1'), rhoend=E.const('0.001'))
    if with_proj:
        kwargs['projections'] = [lambda w: w]
    kind_out, out = _call_solve(E, kwargs, x0)
    _judge(E, kind_out, out, True, False, 'bound-shapes')


def body_slow_iters(E):
    """every value of slow.history_for_slow that the parameter table accepts must be usable: the slow-iteration test never raises
    (history lengths 0..history+1, any objective history)"""
    from ..state import mk_controller
    C, M, ghost, params = mk_controller(E, 1, 1, 2, 2, with_save=False, objfun=None)
    # (a stored objective at or below the small-objective threshold ends the run before this test is reached: INV of DESIGN section 3)
    thr = M.min_objective_value()
    E.assume(E.all([E.no(M.objval[k] <= thr) for k in range(2)]))
    lo = params.param_type("slow.history_for_slow", 2)[2]
    hist = int(E.int('history_for_slow', lo if lo is not None else -2, 3))
    params.params["slow.history_for_slow"] = hist
    k = int(E.int('stored', 0, hist + 1))
    C.last_iters_step_taken = [E.int('it%d' % i, 0, None) for i in range(k)]
    C.last_fopts_step_taken = [E.real('fo%d' % i, npy=False, lo=1) for i in range(k)]
    C.num_slow_iters = E.int('nslow', 0, 3)
    try:
        C.terminate_from_slow_iterations(E.int('iter', 0, None), params)
    except Exception as e:      # noqa
        E.fail('slow-iterations:raises-%s[history_for_slow=%d]' % (type(e).__name__, hist), detail=str(e)[:120])
        return
    E.reach('slow-iterations:returned')


def body_npt_coord(E, n):
    """contradictory options: more interpolation points than a full quadratic has coefficients together with a forced coordinate
    initialisation (by default the solver switches to random initial directions for such npt)"""
    x0 = E.vec('x0_', n, lo=-1000, hi=1000)
    npt = E.int('npt', n + 1, (n + 1) * (n + 2) // 2 + 3)
    forced = bool(E.is_true(E.bool('coordinate_init_forced')))
    kwargs = dict(npt=npt, rhobeg=E.const('0.1'), rhoend=E.const('0.001'))
    if forced:
        kwargs['user_params'] = {'init.random_initial_directions': False}
    BAD = E.all([forced, npt > (n + 1) * (n + 2) // 2])
    kind_out, out = _call_solve(E, kwargs, x0)
    _judge(E, kind_out, out, BAD, E.no(BAD), 'npt-vs-coordinate-init')


def body_param(E, n, key, kind):
    """one user parameter of every kind, symbolic magnitude; everything else valid"""
    x0 = E.vec('x0_', n)
    npt = E.int('npt', n + 1, 2 * n + 2)
    maxfun = E.int('maxfun', 1, 60)
    val = _val_of_kind(E, kind, 'v')
    noise = bool(E.is_true(E.bool('noise')))
    kwargs = dict(npt=npt, maxfun=maxfun, rhobeg=E.const('0.5'), rhoend=E.const('0.001'),
                  user_params={key: val}, objfun_has_noise=noise)
    if key not in SPEC:
        kind_out, out = _call_solve(E, kwargs, x0)
        _judge(E, kind_out, out, False, False, 'param', expect_valueerror=True)
        return
    ok = _spec_ok(E, key, kind, val, npt)
    # options that contradict another default are part of BAD, too
    contradiction = False
    if kind == 'bool':
        if key == 'growing.safety.full_geom_step':
            contradiction = False      # default reduce_delta is False
        if key == 'growing.perturb_trust_region_step':
            contradiction = (val is True)   # default use_full_rank_interp=True
        if key == 'init.run_in_parallel':
            contradiction = E.all([val is True, E.no(npt > (n + 1) * (n + 2) // 2)])   # needs random directions
        if key == 'growing.reset_rho':
            contradiction = (val is True)   # needs reset_delta
        if key == 'init.random_initial_directions':
            # forcing the coordinate initialisation contradicts an npt above (n+1)(n+2)/2, which only random directions can place
            contradiction = E.all([val is False, npt > (n + 1) * (n + 2) // 2])
    if ok is None:
        bad, good = False, False
    else:
        bad = E.any([E.no(ok), contradiction])
        good = E.no(bad)
    kind_out, out = _call_solve(E, kwargs, x0)
    _judge(E, kind_out, out, bad, good, 'param')


CONTRA = [
    ({'growing.safety.full_geom_step': 'a', 'growing.safety.reduce_delta': 'b'}, lambda v: v['a'] and v['b']),
    ({'growing.full_rank.use_full_rank_interp': 'a', 'growing.perturb_trust_region_step': 'b'}, lambda v: v['a'] and v['b']),
    ({'init.run_in_parallel': 'a', 'init.random_initial_directions': 'b'}, lambda v: v['a'] and not v['b']),
    ({'growing.reset_rho': 'a', 'growing.reset_delta': 'b'}, lambda v: v['a'] and not v['b']),
]


def body_contra(E, n, which):
    """contradictory option combinations"""
    x0 = E.vec('x0_', n)
    keys, pred = CONTRA[which]
    vals = {}
    up = {}
    for k, nm in keys.items():
        vals[nm] = bool(E.is_true(E.bool(nm)))
        up[k] = vals[nm]
    kwargs = dict(rhobeg=E.const('0.5'), rhoend=E.const('0.001'), user_params=up)
    bad = bool(pred(vals))
    kind_out, out = _call_solve(E, kwargs, x0)
    _judge(E, kind_out, out, bad, not bad, 'contradiction')


def body_noise(E, n):
    """noise-level options: exactly one of additive / multiplicative may be given when quitting on noise level"""
    x0 = E.vec('x0_', n)
    up = {}
    quit_ = bool(E.is_true(E.bool('quit')))
    up['noise.quit_on_noise_level'] = quit_
    add = mult = None
    if E.is_true(E.bool('add_given')):
        add = E.real('add', npy=False)
        up['noise.additive_noise_level'] = add
    if E.is_true(E.bool('mult_given')):
        mult = E.real('mult', npy=False)
        up['noise.multiplicative_noise_level'] = mult
    bad = []
    if add is not None:
        bad.append(add < 0)
    if mult is not None:
        bad.append(mult < 0)
    if quit_ and add is not None and mult is not None:
        bad.append(True)
    kwargs = dict(rhobeg=E.const('0.5'), rhoend=E.const('0.001'), user_params=up)
    BAD = E.any(bad)
    kind_out, out = _call_solve(E, kwargs, x0)
    _judge(E, kind_out, out, BAD, E.no(BAD), 'noise')


def body_growing_default(E, n, m, which):
    """a legal growing.* option on an under-/over-determined problem: solve must get through the x0 block of the real solve_main
    (where the default growing method is chosen once m is known) without raising"""
    x0 = E.vec('x0_', n)
    val = bool(E.is_true(E.bool('val')))
    up = {}
    if which in ('full', 'both'):
        up['growing.full_rank.use_full_rank_interp'] = val
    if which in ('perturb', 'both'):
        up['growing.perturb_trust_region_step'] = (not val) if which == 'both' else val
    if which == 'none':
        up['general.check_objfun_for_overflow'] = val        # an unrelated option: the solver picks its growing defaults itself
    up_copy = dict(up)
    reached = []

    class ControllerStub(object):
        def __init__(self, *a, **k):
            reached.append(1)
            raise Stop('controller')
    E.patch('Controller', ControllerStub)
    r = E.vec('r', m)
    E.assume(E.all([r[j] * r[j] >= 1 for j in range(m)]))     # not already optimal at x0
    bad = (which != 'both' and False) or (which == 'both' and False)
    contradiction = (which == 'full' and False)
    try:
        soln = E.get('solve')(lambda x, *a: r, x0, rhobeg=E.const('0.5'), rhoend=E.const('0.001'), user_params=up, do_logging=False)
        kind_out, out = 'result', soln
    except Stop:
        kind_out, out = 'proceeded', None
    except Exception as e:     # noqa
        kind_out, out = 'raised', e
    # C19: whatever the solver decides about its own options once m is known, the caller's dictionary is left as it was
    E.prove(up == up_copy, 'C19:growing-default:user_params-not-modified')
    # which=='full' with val True and which=='perturb' with val True contradict the other default only when both end up True
    if kind_out == 'raised':
        E.fail('growing-default:raises-' + type(out).__name__ + '[m%sn]' % ('<' if m < n else '>='), detail=str(out)[:200])
    elif kind_out == 'result':
        INPUT_ERROR = E.get('EXIT_INPUT_ERROR')
        is_err = E.is_true(out.flag == INPUT_ERROR)
        # the only rejected combination: both options on
        both_on = (up.get('growing.full_rank.use_full_rank_interp', True) and up.get('growing.perturb_trust_region_step', False))
        E.prove(bool(is_err) == bool(both_on), 'growing-default:only-the-contradictory-combination-is-rejected')
    else:
        E.prove(len(reached) == 1, 'growing-default:run-starts')


FUNCS = ['solver.solve', 'solver.solve_main', 'solver.OptimResults', 'params.ParameterList', 'params.check_integer', 'params.check_float',
         'params.check_bool', 'controller.ExitInformation', 'util.apply_scaling']


def body_proj_init(E, n, num_pts, num_directions):
    """general convex constraints: does the coordinate initialisation accept every documented (npt, growing.ndirs_initial)?
    Best case for the code: the projected coordinate directions are independent (rank n)."""
    from ..state import mk_params, mk_objfun, EvalLog
    np = E.np
    log = EvalLog()
    objfun = mk_objfun(E, 1, log)
    params = mk_params(E, n, num_pts, 50)
    x0 = E.vec('x0_', n)
    P = [lambda w: w, lambda w: w]
    big = E.const(10 ** 20)
    xl = E.arr([-big] * n, 'f') if E.symbolic else np.array([-1e20] * n)
    xu = E.arr([big] * n, 'f') if E.symbolic else np.array([1e20] * n)
    C = E.get('Controller')(objfun, (), x0.copy(), E.vec('r0_', 1), 1, xl, xu, P, num_pts, E.const('0.5'), E.const('0.0005'), 1, 1, 50, params, None, False)
    E.patch('dykstra', lambda P_, x, max_iter=100, tol=1e-10: E.vec('dy', n))
    E.patch('qr_rank', lambda A, tol=1e-15: (n, np.ones((n,))))
    E.hooks(rng=lambda kind, size, **kw: np.zeros(size, dtype=int) if kind == 'randint' else np.ones(size))
    try:
        C.initialise_coordinate_directions(1, num_directions, params)
    except RuntimeError as e:
        E.fail('C07:proj-init:raises-RuntimeError[ndirs%sn]' % ('==' if num_directions == n else '!='), detail=str(e)[:100])
        return
    E.reach('proj-init:ok')


def harnesses(tier, seed):
    hs = []
    cfg = core.Cfg(qtimeout_ms=20000)
    # packaging of the result (un-scaling, merge of restarted runs) for every way a run can end - also before any model exists (no Jacobian):
    # solve returns a result object and does not raise
    from .. import outer
    hs += [h for h in outer.outer_harnesses(tier, seed, 'C07') if 'scaling=1' in h.name or tier != 'quick']
    for (n_, npt_, nd_) in ((1, 2, 1), (2, 3, 2), (2, 5, 4), (2, 3, 1)):
        hs.append(Harness("proj-init[n=%d,npt=%d,ndirs=%d]" % (n_, npt_, nd_), 'dfverif.checks.c07', 'body_proj_init',
                          params=dict(n=n_, num_pts=npt_, num_directions=nd_), cfg=core.Cfg(qtimeout_ms=20000, uflin=True),
                          functions=['controller.Controller.initialise_coordinate_directions'],
                          bounds="n=%d, npt=%d, %d initial directions; projected coordinate directions independent; starting point and objective values symbolic" % (n_, npt_, nd_),
                          assumptions=["dykstra: fresh vector; qr_rank: rank n (best case); random selectors all zero (they cannot change the outcome: D is n x n)"],
                          nproc=1, max_replays=2))
    ns = [1] if tier == 'quick' else [1, 2]
    common = ["solve_main stubbed: reaching it ends the path ('input accepted')",
              "objfun/h/prox_uh never called during validation",
              "golden parameter table (type, None-ok, range) is the oracle for user parameters; bool offered for an int parameter and rhobeg == rhoend are left unspecified"]
    for n in ns:
        for bk in ('none', 'lower', 'upper', 'both'):
            for with_h in (False, True):
                for with_proj in ((False, True) if bk in ('none', 'both') else (False,)):
                    hs.append(Harness("args[n=%d,bounds=%s,h=%d,proj=%d]" % (n, bk, with_h, with_proj), 'dfverif.checks.c07', 'body_args',
                                      params=dict(n=n, bounds_kind=bk, with_h=with_h, with_proj=with_proj), cfg=cfg, functions=FUNCS,
                                      bounds="n=%d; npt, maxfun symbolic ints, rhobeg/rhoend/lh/bounds/x0 symbolic reals (|x0|, rhobeg, rhoend <= 1e15), each optional argument given or not" % n,
                                      assumptions=common, nproc=1, expect=['args:bad-input-is-reported']))
    for n_ in (1, 2):
        hs.append(Harness("npt-vs-coordinate-init[n=%d]" % n_, 'dfverif.checks.c07', 'body_npt_coord', params=dict(n=n_), cfg=cfg, functions=FUNCS,
                          bounds="n=%d, npt from n+1 to (n+1)(n+2)/2+3, init.random_initial_directions forced off or left to its default" % n_,
                          assumptions=common, nproc=1, expect=['npt-vs-coordinate-init:bad-input-is-reported']))
    hs.append(Harness("slow-iterations[any-legal-history]", 'dfverif.checks.c07', 'body_slow_iters', params={}, cfg=core.Cfg(qtimeout_ms=20000, uflin=True),
                      functions=['controller.Controller.terminate_from_slow_iterations', 'params.ParameterList.param_type'],
                      bounds="slow.history_for_slow from the lower end of its accepted range up to 3, 0..history+1 stored iterations, objective history >= 1",
                      assumptions=["math.log: uninterpreted strictly monotone function"], nproc=1, expect=['slow-iterations:returned']))
    for which in ('lower', 'upper', 'both'):
        for (scaling, with_proj) in ((False, False), (True, False), (False, True)):
            hs.append(Harness("bound-shapes[n=2,%s,scaling=%d,proj=%d]" % (which, scaling, with_proj), 'dfverif.checks.c07', 'body_bound_shapes',
                              params=dict(n=2, which=which, scaling=scaling, with_proj=with_proj), cfg=cfg, functions=FUNCS,
                              bounds="n=2, the named bound array(s) have one entry too many, everything else valid", assumptions=common, nproc=1,
                              expect=[]))
    for key in KEYS + ['no.such.parameter']:
        for kind in KINDS:
            hs.append(Harness("param[%s=%s]" % (key, kind), 'dfverif.checks.c07', 'body_param',
                              params=dict(n=1, key=key, kind=kind), cfg=cfg, functions=FUNCS,
                              bounds="n=1, npt in [2,4], maxfun in [1,60], value of the given kind with symbolic magnitude",
                              assumptions=common, nproc=1))
    for w in range(len(CONTRA)):
        hs.append(Harness("contradiction[%d]" % w, 'dfverif.checks.c07', 'body_contra', params=dict(n=1, which=w), cfg=cfg,
                          functions=FUNCS, bounds="both flags symbolic", assumptions=common, nproc=1))
    for (n_, m_) in ((2, 1), (1, 2)):
        for which in ('full', 'perturb', 'both', 'none'):
            hs.append(Harness("growing-default[n=%d,m=%d,%s]" % (n_, m_, which), 'dfverif.checks.c07', 'body_growing_default',
                              params=dict(n=n_, m=m_, which=which), cfg=core.Cfg(qtimeout_ms=20000, uflin=True), functions=FUNCS,
                              bounds="n=%d, m=%d, the option(s) given with either boolean value" % (n_, m_),
                              assumptions=["real solve and real solve_main up to the construction of the Controller (stubbed to end the path)"], nproc=1))
    hs.append(Harness("noise-levels", 'dfverif.checks.c07', 'body_noise', params=dict(n=1), cfg=cfg, functions=FUNCS,
                      bounds="levels symbolic reals, given or not", assumptions=common, nproc=1))
    return hs


def run(tier, seed):
    import json
    from .. import crosshair_c07
    from ..harness import VERIF
    errs = []
    doc_keys = set(documented_param_keys())
    missing_doc = sorted(k for k in doc_keys if k not in SPEC)
    if missing_doc:
        errs.append("documented parameters missing from the golden table: %s" % missing_doc)
    if not documented_exit_names():
        errs.append("no soln.EXIT_* names found in docs/userguide.rst")
    # second engine on the pure-Python parameter checks
    try:
        ch = crosshair_c07.run(30 if tier == 'quick' else 90)
    except Exception as e:     # noqa
        ch = {'confirmed': 0, 'inconclusive': 0, 'refuted': [], 'other_errors': ['crosshair did not run: %s' % e], 'conditions': 5}
    print("[C07] crosshair on dfols/params.py: %d of %d conditions confirmed over all paths, %d inconclusive, %d refuted (%ss)" % (
        ch['confirmed'], ch['conditions'], ch['inconclusive'], len(ch['refuted']), ch.get('seconds')))
    ch_viol = []
    for r_ in ch['refuted']:
        if r_['reproduced']:
            d_ = os.path.join(VERIF, 'replays', 'C07')
            os.makedirs(d_, exist_ok=True)
            fn = os.path.join(d_, 'crosshair-%s.json' % r_['function'])
            with open(fn, 'w') as f:
                json.dump(r_, f, indent=1)
            ch_viol.append(os.path.relpath(fn, VERIF))
        else:
            print("[C07] INCONCLUSIVE crosshair counterexample did not reproduce: %s" % r_['call'])
    if ch.get('other_errors'):
        errs.append("crosshair: %s" % ch['other_errors'][0][:300])
    rc = run_property(
        'C07', harnesses(tier, seed) + __import__('dfverif.step', fromlist=['x']).action_harnesses(tier, seed, 'C07'), tier, seed, extra_errors=errs,
        explanation="Symbolic execution (z3, linear integer/real arithmetic) of the real solve() from entry to its call of "
                    "solve_main, ParameterList and OptimResults, over all argument kinds and symbolic magnitudes; obligations: "
                    "no exception except ValueError for an unknown key, BAD(input) => input-error result with zero evaluations "
                    "that prints, GOOD(input) => accepted, documented EXIT_* constants exposed. Replayed through dfols.solve. "
                    "Second engine: CrossHair on check_integer/check_float/check_bool, the defaults and the update-once rule.",
        extra_cov={'documented_exit_constants': documented_exit_names(), 'parameter_keys': len(KEYS), 'crosshair': ch})
    for fn in ch_viol:
        print("VIOLATION property=C07 replay=%s" % fn)
        print("  engine=crosshair")
    if ch_viol and rc == 0:
        rc = 1
    return rc
