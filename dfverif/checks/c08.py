"""
C08 - bad objective values at any evaluation are survived gracefully (PARTIAL: termination of whole runs is not decided).

(a) STEP in extended reals: the objective stub may return NaN / +inf / -inf / any finite value at every call of one
    main-loop iteration from any state: no exception from the real (non-stub) code unless the user opted into
    interpolation.throw_error_on_nans; a finite best value survives and is never increased; counters/box as in C02/C01;
    a success flag never carries a non-finite objective (C10).
(b) STEP with the objective stub raising at its first call: the exception propagates unchanged, no further evaluation.
(c) Model level (shared with C17): save_point / get_final_results / change_point / add_new_sample prefer any non-NaN value.
(d) overflow guard of eval_least_squares_with_regularisation.
"""
from ..harness import Harness, run_property
from .. import core, step, outer
from ..state import mk_h
from . import c17


def body_overflow_guard(E, m, with_h, guard):
    np = E.np
    f = E.get('eval_least_squares_with_regularisation')
    x = E.vec('x', 1)
    r = E.vec('r', m, xr=True)
    h = mk_h(E, 1) if with_h else None
    try:
        fvec, obj = f(lambda x_, *a: r, x, h, verbose=False, check_for_overflow=guard)
    except Exception as e:    # noqa
        E.fail('guard:raises-' + type(e).__name__)
        return
    E.prove(E.all([E.same(fvec[j], r[j]) for j in range(m)]), 'guard:residual-returned-unchanged')
    big = E.const(1.3407807929942596e+154)      # sqrt(sys.float_info.max), exact value of the double
    anynan = E.any([E.isnan(r[j]) for j in range(m)])
    absr = [E.ite(r[j] >= 0, r[j], -r[j]) for j in range(m)]
    huge = E.any([absr[j] >= big * (1 + E.const('1e-9')) for j in range(m)])
    small = E.all([absr[j] <= big * (1 - E.const('1e-9')) for j in range(m)])
    hv = h(x) if with_h else 0
    fmax = E.const(1.7976931348623157e+308)
    if guard:
        E.prove(E.implies(E.all([huge, E.no(anynan)]), E.eq(obj, fmax + hv)), 'guard:overflow-sized-residual-gives-float-max')
    ss = sum(r[j] * r[j] for j in range(m))
    E.prove(E.implies(E.all([small, E.no(anynan)]), E.eq(obj, ss + hv)), 'guard:ordinary-residual-gives-sumsq-plus-h')
    E.prove(E.implies(E.all([E.no(anynan)]), E.no(E.isnan(obj))), 'guard:no-nan-out-without-nan-in')


def body_nonfinite_model(E, n, with_h, proj):
    """a non-finite model (NaN or +-inf in J / the constant term, e.g. after a 1e200 residual) never reaches the projected-gradient /
    S-FISTA subproblem solvers: the zero step is handed back instead"""
    from ..state import mk_controller
    np = E.np
    C, M, ghost, params = mk_controller(E, n, 1, n + 1, n + 1, with_h=with_h, with_save=False, objfun=None)
    M.model_jac = E.mat('Jx', 1, n, xr=True)
    M.model_const = E.vec('cx', 1, xr=True)
    if proj:
        M.projections = [lambda w: w, lambda w: w]
        E.patch('dykstra', lambda P, x0, max_iter=100, tol=1e-10: x0.copy())
    called = []

    def solver_stub(name):
        def f(xopt, g, H, *a, **k):
            fin = E.all([E.isfinite(v) for v in E.flat(g)] + [E.isfinite(v) for v in E.flat(H)])
            called.append((name, fin))
            return E.vec('dS', n), E.vec('gS', n), E.real('crv')
        return f
    E.patch('ctrsbox_pgd', solver_stub('pgd'))
    E.patch('ctrsbox_sfista', solver_stub('sfista'))
    E.hooks(la=lambda name, args, kw: E.real('normH', lo=0) if name == 'norm2' else NotImplemented)
    try:
        d, gopt, H, gnew, crvmin = C.trust_region_step(params, E.real('crit', npy=False, lo=0))
    except Exception as e:     # noqa
        E.fail('nonfinite-model:trust_region_step-raises-' + type(e).__name__, detail=str(e)[:160])
        return
    for (name, fin) in called:
        E.prove(fin, 'nonfinite-model:%s-never-called-with-a-non-finite-model' % name)
    modelfin = E.all([E.isfinite(v) for v in E.flat(gopt)] + [E.isfinite(v) for v in E.flat(H)])
    E.prove(E.implies(E.no(modelfin), E.all([d[i] == 0 for i in range(n)])), 'nonfinite-model:zero-step-handed-back')
    E.reach('nonfinite-model:checked')


def body_sfista_overflow(E, n):
    """regularised subproblem on a FINITE but huge model: the spectral norm of a finite matrix can overflow to +inf in binary64 (contract of
    the LAPACK stub: any value in [0, +inf]), and so can the iteration-count formula; whatever they return, ctrsbox_sfista does not raise"""
    np = E.np
    xopt = E.vec('xo', n)
    g = E.vec('g', n)
    H = E.mat('H', n, n)
    if n == 2:
        H[1, 0] = H[0, 1]
    delta = E.real('delta', npy=False)
    Lh = E.real('Lh', npy=False)
    E.assume(E.all([delta > 0, Lh > 0]))
    E.cap_loops(1)
    E.patch('dykstra', lambda P, x0, max_iter=100, tol=1e-10: x0.copy())
    if E.symbolic:
        E.hooks(la=lambda name, args, kw: E.real('normH', xr=True, lo=0) if name == 'norm2' else NotImplemented)
    else:
        # unit replay: the stub's value is fed where the symbolic run had the stub (binary64 overflow of the norm is what it stands for)
        import numpy as _rnp
        _orig = _rnp.linalg.norm
        _val = E.real('normH', xr=True, lo=0)
        E.patch_attr(_rnp.linalg, 'norm', lambda a, ord=None, **k: _val if (ord == 2 and _rnp.ndim(a) == 2 and _rnp.shape(a) != (1, 1)) else _orig(a, ord, **k))
    try:
        d, gnew, crvmin = E.get('ctrsbox_sfista')(xopt, g, H, [lambda w: w], delta, lambda x, *a: 0 * x[0], Lh, lambda x, u, *a: x,
                                                   func_tol=E.const('0.001'), max_iters=2, use_fortran=False)
    except Exception as e:     # noqa
        E.fail('sfista-overflow:raises-' + type(e).__name__, detail=str(e)[:160])
        return
    E.reach('sfista-overflow:returned')


def body_trsbox_nonfinite(E, n):
    """box / unconstrained path: trsbox has no guard against a non-finite model; whatever g (NaN, +-inf) and H (+-inf) hold,
    it must hand back a finite step inside the box without raising (the main loop takes scipy's norm of it)"""
    np = E.np
    xopt = E.vec('xo', n)
    g = E.vec('g', n, xr=True)
    Hd = E.vec('Hd', n, xr=True)
    H = E.mat('H', n, n)
    for i in range(n):
        for j in range(n):
            if j < i:
                H[i, j] = H[j, i]
        H[i, i] = Hd[i]
        E.assume(E.no(E.isnan(Hd[i])))        # (H = 2 J^T J is symmetric; a NaN entry is refused by trsbox's own precondition)
    sl = E.vec('sl', n)
    su = E.vec('su', n)
    delta = E.real('delta', npy=False)
    E.assume(E.all([delta > 0] + [sl[i] <= xopt[i] for i in range(n)] + [xopt[i] <= su[i] for i in range(n)]))
    E.assume(E.no(E.all([E.isfinite(v) for v in E.flat(g)] + [E.isfinite(v) for v in E.flat(Hd)])))
    x0_ = xopt.copy()
    try:
        d, gnew, crvmin = E.get('trsbox')(xopt, g, H, sl, su, delta, use_fortran=False)
    except Exception as e:     # noqa
        E.fail('trsbox-nonfinite:raises-' + type(e).__name__, detail=str(e)[:160])
        return
    E.prove(E.all([E.isfinite(d[i]) for i in range(n)]), 'trsbox-nonfinite:step-is-finite')
    xn = x0_ + d
    E.prove(E.all([sl[i] <= xn[i] for i in range(n)] + [xn[i] <= su[i] for i in range(n)]), 'trsbox-nonfinite:step-inside-box')


def harnesses(tier, seed):
    hs = step.step_harnesses(tier, seed, 'C08')
    for n in ([1] if tier == 'quick' else [1, 2]):
        hs.append(Harness("trsbox-nonfinite[n=%d]" % n, 'dfverif.checks.c08', 'body_trsbox_nonfinite', params=dict(n=n),
                          cfg=core.Cfg(qtimeout_ms=20000, uflin=True), functions=['trust_region.trsbox', 'trust_region.alt_trust_step'],
                          bounds="n=%d; g entries NaN / +-inf / finite, diagonal of H +-inf / finite, at least one entry not finite; box and radius symbolic" % n,
                          assumptions=["H symmetric without NaN (trsbox's own precondition)"], nproc=None, wall_budget=300, max_replays=3))
    hs += [h for h in outer.outer_harnesses(tier, seed, 'C08') if 'bad-values' in h.name]
    hs += step.action_harnesses(tier, seed, 'C08')
    for (with_h, proj) in ((False, True), (True, True), (True, False)):
        for n in ([1] if tier == 'quick' else [1, 2]):
            hs.append(Harness("nonfinite-model[n=%d,h=%d,projections=%d]" % (n, with_h, proj), 'dfverif.checks.c08', 'body_nonfinite_model',
                              params=dict(n=n, with_h=with_h, proj=proj), cfg=core.Cfg(fork_queries=True, qtimeout_ms=30000),
                              functions=['controller.Controller.trust_region_step', 'model.Model.build_full_model'],
                              bounds="n=%d, m=1, model Jacobian and constant term NaN / +-inf / finite" % n,
                              assumptions=["ctrsbox_pgd / ctrsbox_sfista stubbed: record whether they were handed a finite model"],
                              expect=['nonfinite-model:zero-step-handed-back'], nproc=1))
    for n in ([1, 2] if tier == 'quick' else [1, 2]):
        hs.append(Harness("sfista-overflow[n=%d]" % n, 'dfverif.checks.c08', 'body_sfista_overflow', params=dict(n=n),
                          cfg=core.Cfg(fork_queries=True, qtimeout_ms=30000), functions=['trust_region.ctrsbox_sfista'],
                          bounds="n=%d; finite model of any size; spectral norm of H = any value in [0,+inf] (overflow of a finite matrix norm included); 1 S-FISTA iteration" % n,
                          assumptions=["np.linalg.norm(H, 2) by contract (LAPACK); NaN norm excluded (the model is finite)"],
                          expect=['sfista-overflow:returned'], nproc=1, wall_budget=200))
    for h in c17.model_harnesses('quick', seed):
        if h.params['npt_so_far'] == h.params['num_pts'] and not h.params['with_h'] and \
                h.params['op'] in ('save_point_abs', 'get_final_results', 'change_point', 'add_new_sample', 'add_new_point'):
            h.home = 'C08'
            h.name = 'model:' + h.name
            hs.append(h)
    for m in ([1] if tier == 'quick' else [1, 2]):
        for with_h in (False, True):
            for guard in (True, False):
                hs.append(Harness("overflow-guard[m=%d,h=%d,check=%d]" % (m, with_h, guard), 'dfverif.checks.c08', 'body_overflow_guard',
                                  params=dict(m=m, with_h=with_h, guard=guard), cfg=core.Cfg(fork_queries=True, qtimeout_ms=30000),
                                  functions=['util.eval_least_squares_with_regularisation'],
                                  bounds="m=%d, residual entries NaN / +-inf / any finite value" % m,
                                  assumptions=["a 1e-9 relative band around sqrt(float max) is unspecified", "extended reals; finite overflow of sumsq itself not modelled (that is what the guard is for)"],
                                  expect=['guard:ordinary-residual-gives-sumsq-plus-h'], nproc=1))
    return hs


def run(tier, seed):
    return run_property(
        'C08', harnesses(tier, seed), tier, seed,
        explanation="PARTIAL. Extended-real (NaN/+-inf flags) symbolic execution with z3: one whole main-loop iteration from any state with "
                    "bad values injected at every evaluation of it, exception propagation from the objective, the Model selection "
                    "operations, and the overflow guard. NOT decided: termination of a whole run under a fault, and 'no raise' inside the "
                    "LAPACK routines fed non-finite data (stubbed by the contract 'fails on non-finite data').")
