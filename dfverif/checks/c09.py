"""
C09 - general convex constraints hold at every evaluation up to Dykstra's tolerance.

(a) STEP with projections: every point evaluated in one main-loop iteration is an output of the alternating projection over
    the model's projector list, whose last member is the bound box built by solve;
(b) prologue of the real solve with projections: box projector appended last and equal to clip(., lower, upper), internal
    bounds set to +-1e20, an infeasible x0 replaced by its projection before the first evaluation;
(c) the sqrt(p*tol) clause and 'exactly in the box because it is projected last' are C15's lemmas (stop rule, last
    projector's output is returned, binary64 pbox) - one instance is re-run here with p = user sets + box.
"""
from ..harness import Harness, run_property, Stop
from .. import core, step
from . import c15


def body_prologue(E, n, with_bounds):
    np = E.np
    x0 = E.vec('x0_', n, lo=-10 ** 15, hi=10 ** 15)     # magnitudes near the 1e20 'no bound' sentinel are outside the claim
    rhobeg = E.const('0.5')
    kwargs = dict(rhobeg=rhobeg, rhoend=E.const('0.001'), maxfun=20)
    xl = xu = None
    if with_bounds:
        xl = E.vec('xl', n, lo=-10 ** 15, hi=10 ** 15)
        xu = E.vec('xu', n, lo=-10 ** 15, hi=10 ** 15)
        E.assume(E.all([xu[i] - xl[i] >= 2 * rhobeg for i in range(n)]))
        kwargs['bounds'] = (xl, xu)
    userP = lambda w: w
    user_list = [userP]
    kwargs['projections'] = user_list
    dcalls = []

    def dykstra(P, x, max_iter=100, tol=1e-10):
        z = E.vec('xp%d_' % len(dcalls), n)
        dcalls.append({'P': list(P), 'arg': x.copy(), 'out': z, 'max_iter': max_iter, 'tol': tol})
        return z
    E.patch('dykstra', dykstra)
    got = {}

    def solve_main(objfun, x0_, argsf, xl_, xu_, projections, *a, **k):
        got.update(x0=x0_.copy(), xl=xl_, xu=xu_, P=list(projections))
        raise Stop('solve_main')
    E.patch('solve_main', solve_main)
    try:
        E.get('solve')(lambda x: x, x0, **kwargs)
    except Stop:
        pass
    E.prove('x0' in got, 'prologue:valid-input-accepted')
    if 'x0' not in got:
        return
    P = got['P']
    E.prove(len(P) == 2 and P[0] is userP, 'prologue:user-projectors-kept-first')
    E.prove(len(user_list) == 1, 'C19:prologue:caller-projection-list-not-modified')
    w = E.vec('w', n)
    out = P[-1](w)
    big = E.const(10 ** 20)
    lo = [xl[i] if with_bounds else -big for i in range(n)]
    hi = [xu[i] if with_bounds else big for i in range(n)]
    exp = [E.ite(w[i] < lo[i], lo[i], E.ite(w[i] > hi[i], hi[i], w[i])) for i in range(n)]
    E.prove(E.all([E.eq(out[i], exp[i]) for i in range(n)]), 'prologue:box-projector-appended-last-is-clip(lower,upper)')
    E.prove(E.all([E.eq(got['xl'][i], -big) for i in range(n)] + [E.eq(got['xu'][i], big) for i in range(n)]),
            'prologue:internal-bounds-disabled-when-projections-are-used')
    E.prove(len(dcalls) == 1 and len(dcalls[0]['P']) == 2 and dcalls[0]['P'][-1] is P[-1], 'prologue:x0-projected-onto-user-sets-and-box')
    if dcalls:
        E.prove(E.all([E.eq(dcalls[0]['arg'][i], x0[i]) for i in range(n)]), 'prologue:projection-applied-to-x0')
        xp = dcalls[0]['out']
        # the alternating projection returns a point of the box (C15); then the clamp to the (disabled) internal bounds is the identity
        E.assume(E.all([lo[i] <= xp[i] for i in range(n)] + [xp[i] <= hi[i] for i in range(n)]))
        E.prove(E.all([E.eq(got['x0'][i], xp[i]) for i in range(n)]), 'prologue:starting-point-is-the-projection-of-x0')


def body_model_accessors(E, n):
    """with general convex constraints every point the model hands out in absolute coordinates - as_absolute_coordinates, xpt / xopt with
    abs_coordinates=True, and the x of get_final_results (the start of the next run after a hard restart) - is an output of the alternating
    projection over the model's projector list"""
    from ..state import mk_model
    np = E.np
    M, ghost = mk_model(E, n, 1, n + 1, n + 1, with_h=False, xr=False, with_save=False, box=False)
    userP, boxP = (lambda w: w), (lambda w: w)
    M.projections = [userP, boxP]
    dcalls = []

    def dykstra(P, x, max_iter=100, tol=1e-10):
        z = E.vec('dy%d_' % len(dcalls), n)
        dcalls.append({'P': list(P), 'out': z})
        return z
    E.patch('dykstra', dykstra)

    def is_output(x):
        return E.any([E.all([E.eq(x[i], dc['out'][i]) for i in range(n)]) for dc in dcalls]) if dcalls else False
    k = int(E.int('k', 0, n))
    for name, x in (('as_absolute_coordinates', M.as_absolute_coordinates(E.vec('p', n))), ('xpt', M.xpt(k, abs_coordinates=True)),
                    ('xopt', M.xopt(abs_coordinates=True)), ('get_final_results', M.get_final_results()[0])):
        E.prove(is_output(x), 'model:%s-in-absolute-coordinates-is-an-alternating-projection-output' % name)
    E.prove(all(len(dc['P']) == 2 and dc['P'][-1] is boxP for dc in dcalls), 'model:projection-uses-the-model-list-with-the-box-last')


def harnesses(tier, seed):
    hs = step.step_harnesses(tier, seed, 'C09')
    for n in ([1, 2] if tier == 'quick' else [1, 2, 3]):
        for wb in (False, True):
            hs.append(Harness("prologue[n=%d,bounds=%d]" % (n, wb), 'dfverif.checks.c09', 'body_prologue', params=dict(n=n, with_bounds=wb),
                              cfg=core.Cfg(qtimeout_ms=20000), functions=['solver.solve', 'util.pbox'],
                              bounds="n=%d, one user projector, any x0 (feasible or not), any box with gap >= 2*rhobeg; |x0|, |bounds| <= 1e15" % n,
                              assumptions=["dykstra stubbed: arbitrary output inside the box (C15); solve_main stubbed: captures its arguments"],
                              expect=['prologue:starting-point-is-the-projection-of-x0'], nproc=1))
    for n in ([1, 2] if tier == 'quick' else [1, 2, 3]):
        hs.append(Harness("model-accessors[n=%d]" % n, 'dfverif.checks.c09', 'body_model_accessors', params=dict(n=n), cfg=core.Cfg(qtimeout_ms=20000),
                          functions=['model.Model.as_absolute_coordinates', 'model.Model.xpt', 'model.Model.xopt', 'model.Model.get_final_results'],
                          bounds="n=%d, any model state, projections = [user set, box]" % n, assumptions=["dykstra stubbed: fresh vector per call (C15)"],
                          expect=['model:get_final_results-in-absolute-coordinates-is-an-alternating-projection-output'], nproc=1))
    for h in c15.harnesses(tier, seed):
        if h.name.startswith('stoprule[n=2,p=3') or h.name.startswith('box-exact-binary64[n=1]') or 'in-place' in h.name:
            h.home = 'C09'
            h.name = 'C15-lemma:' + h.name
            hs.append(h)
    return hs


def run(tier, seed):
    return run_property(
        'C09', harnesses(tier, seed), tier, seed,
        explanation="Provenance by symbolic execution (z3): every x evaluated in one main-loop iteration equals an output of the "
                    "alternating projection called with the model's projector list (box last); the real solve prologue appends the box "
                    "projector last, disables the internal bounds and starts from the projection of x0; C15's stop-rule lemma gives the "
                    "sqrt(p*tol) distance and the binary64 pbox lemma the exact box.")
