"""
C10 - exit flags and messages tell the truth.
"""
from ..harness import run_property
from .. import step, outer, runstart
from .c03 import shared_c02_harnesses


def harnesses(tier, seed):
    return step.step_harnesses(tier, seed, 'C10') + shared_c02_harnesses(tier) + outer.outer_harnesses(tier, seed, 'C10') + runstart.start_harnesses(tier, seed, 'C10')


def run(tier, seed):
    return run_property(
        'C10', harnesses(tier, seed), tier, seed,
        explanation="Obligations attached to every exit of the real code, classified by the message the real ExitInformation carries "
                    "(z3 LRA+UF over one main-loop iteration from any state, the x0 block, evaluate_objective, soft_restart admission and "
                    "the hard-restart loop of solve): 'sufficiently small' => obj <= max(abs_tol, rel_tol*f0); 'rho has reached rhoend' => "
                    "rho == rhoend; max-evals => nf == maxfun; 'maximum number of unsuccessful restarts' => that many unsuccessful runs; "
                    "nruns incremented exactly once per run end; soln.nruns = number of runs; success never with a non-finite objective.")
