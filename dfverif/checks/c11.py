"""
C11 - the returned Jacobian is the fit through the evaluations it names (PARTIAL: conditioning-scaled rounding not decided).

(a) semi-symbolic fit (shared with C16): for linear data r = A y - b the real fitting code returns A, for ALL (A, b), on
    each member of a concrete geometry family; the evaluation-number snapshot taken at fit time is the slots' numbers;
(b) STEP: at every exit the returned jacmin_eval_nums is a fit-time snapshot (of the model or of the saved point);
    RUN-START: the slots carry the true evaluation numbers (also after hard restarts);
(c) OUTER: Jacobian and its evaluation numbers come from the same run and the columns are un-scaled exactly once.
"""
from ..harness import run_property
from .. import step, outer, runstart
from . import c16


def harnesses(tier, seed):
    from . import c17
    gfr = [h for h in c17.model_harnesses('quick', seed) if h.params['op'] == 'get_final_results']
    for h in gfr:
        h.name = 'model:' + h.name
        h.home = 'C17'          # (only the C11-labelled obligation of that harness is discharged here)
    return c16.fit_harnesses(tier, seed, 'C11') + step.step_harnesses(tier, seed, 'C11') + outer.outer_harnesses(tier, seed, 'C11') + \
        runstart.start_harnesses(tier, seed, 'C11') + gfr


def run(tier, seed):
    return run_property(
        'C11', harnesses(tier, seed), tier, seed,
        explanation="PARTIAL. z3 decides, for all data, that the real fitting code returns J = A for linear residuals on concrete "
                    "geometries (LAPACK QR trusted), that the evaluation numbers returned with a Jacobian are a fit-time snapshot of the slots' "
                    "true numbers (STEP, RUN-START), and that solve un-scales the columns exactly once and keeps Jacobian and numbers of the "
                    "same run (OUTER). The C03 obligations of RUN-START (true numbering of slots) are discharged under C03.")
