"""
C12 - the box trust-region subproblem solver returns feasible, decreasing steps.

Real trsbox + alt_trust_step + d_within_bounds (use_fortran=False).
  n = 1: everything symbolic (QF_NRA).   n = 2: semi-symbolic - (g, H, Delta) from a finite family
  (full-rank / rank-1 / zero / indefinite H, g over decades), box and current point symbolic: the rare thing,
  the active / nearly-active pattern, stays universally quantified.
  binary64 lemma for "exactly": d = clip(xopt + d0, sl, su) - xopt  =>  fl(sl - xopt) <= d <= fl(su - xopt).
"""
from fractions import Fraction

from ..harness import Harness, run_property
from .. import core, sym


def _q(E, g, H, d, n):
    np = E.np
    return np.dot(d, g) + E.const('0.5') * np.dot(d, np.dot(H, d))


def _cauchy_obligation(E, g, H, xopt, sl, su, delta, d, n, label):
    """q(d) <= q(t*(-g_free)) for the steepest-descent step truncated at the first bound / the ball / the 1-D minimiser.
    Written for an ARBITRARY admissible step length t (universally quantified), which includes the truncated one."""
    np = E.np
    t = E.real('cauchy_t', npy=False)
    free = [E.no(E.any([E.all([xopt[i] <= sl[i], g[i] >= 0]), E.all([xopt[i] >= su[i], g[i] <= 0])])) for i in range(n)]
    s = [E.ite(free[i], -g[i], 0 * g[i]) for i in range(n)]
    from ..arr import SArr
    sv = SArr.from_flat(s, (n,), 'f') if E.symbolic else np.array(s, dtype=float)
    dc = t * sv
    xc = xopt + dc
    adm = E.all([t >= 0, np.dot(dc, dc) <= delta * delta] + [sl[i] <= xc[i] for i in range(n)] + [xc[i] <= su[i] for i in range(n)])
    # steepest descent up to the first of: bound, ball, 1-D minimiser -> along the ray q is decreasing up to the 1-D minimiser
    shs = np.dot(sv, np.dot(H, sv))
    gs = np.dot(g, sv)
    before_min = E.any([shs <= 0, t * shs <= -gs])
    E.prove(E.implies(E.all([adm, before_min]), _q(E, g, H, d, n) <= _q(E, g, H, dc, n) + E.const('1e-12')), label)


def body_n1(E):
    np = E.np
    n = 1
    xopt = E.vec('xo', n)
    g = E.vec('g', n)
    H = E.mat('H', n, n)
    sl = E.vec('sl', n)
    su = E.vec('su', n)
    delta = E.real('delta', npy=False)
    E.assume(E.all([delta > 0, sl[0] <= xopt[0], xopt[0] <= su[0]]))
    # the code's own absolute cut-offs (gredsq <= 1e-18, stplen <= 1e-30) return the zero step by design: keep |g| away from them
    E.assume(E.any([g[0] == 0, g[0] * g[0] > E.const('1e-18')]))
    E.assume(E.all([delta >= E.const('1e-9'), g[0] <= E.const(10 ** 9), g[0] >= -E.const(10 ** 9)]))   # step lengths stay above the 1e-30 cut-off
    g0, x0_ = g.copy(), xopt.copy()
    d, gnew, crvmin = E.get('trsbox')(xopt, g, H, sl, su, delta, use_fortran=False)
    xn = x0_ + d
    E.prove(E.all([sl[0] <= xn[0], xn[0] <= su[0]]), 'n1:step-inside-box')
    E.prove(np.dot(d, d) <= delta * delta * (1 + E.const('1e-8')) * (1 + E.const('1e-8')), 'n1:step-inside-ball')
    E.prove(_q(E, g0, H, d, n) <= 0, 'n1:model-not-increased')
    exp = g0 + np.dot(H, d)
    E.prove(E.all([E.eq(gnew[i], exp[i]) for i in range(n)]), 'n1:returned-gradient-is-g+Hd')
    _cauchy_obligation(E, g0, H, x0_, sl, su, delta, d, n, 'n1:at-least-cauchy-decrease')


FAMILY = {
    'fullrank': ([[2, 0.5], [0.5, 1]], [1, -2], 1),
    'fullrank-small-g': ([[2, 0.5], [0.5, 1]], [1e-3, -2e-3], 1),
    'zeroH': ([[0, 0], [0, 0]], [1, 1], 1),
    'rank1': ([[2, 2], [2, 2]], [1, -1], 0.5),
    'indefinite': ([[1, 0], [0, -1]], [1, 1], 1),
    'suite-con-internal': ([[2, 0], [0, 2]], [-2, -2], 2),
    # n = 3: two bound hits in a row become possible (the radius left for the free variables is reduced twice)
    'n3-zeroH': ([[0, 0, 0], [0, 0, 0], [0, 0, 0]], [1, -2, 1.5], 1),
    'n3-diagH': ([[1, 0, 0], [0, 0.5, 0], [0, 0, 0.25]], [1, -2, 1.5], 2),
}
XOPT = {2: ['0.25', '-0.5'], 3: ['0.25', '-0.5', '0.125']}


def body_n2(E, member, cauchy=False):
    np = E.np
    Hc, gc, dc = FAMILY[member]
    n = len(gc)
    g = E.arr([E.const(str(v)) for v in gc], 'f') if E.symbolic else np.array(gc, dtype=float)
    H = E.arr([[E.const(str(v)) for v in row] for row in Hc], 'f') if E.symbolic else np.array(Hc, dtype=float)
    delta = E.const(str(dc))
    xopt = E.arr([E.const(v) for v in XOPT[n]], 'f') if E.symbolic else np.array([float(v) for v in XOPT[n]])
    sl = E.vec('sl', n)
    su = E.vec('su', n)
    E.assume(E.all([sl[i] <= xopt[i] for i in range(n)] + [xopt[i] <= su[i] for i in range(n)]))
    g0, x0_ = g.copy(), xopt.copy()
    d, gnew, crvmin = E.get('trsbox')(xopt, g, H, sl, su, delta, use_fortran=False)
    xn = x0_ + d
    E.prove(E.all([sl[i] <= xn[i] for i in range(n)] + [xn[i] <= su[i] for i in range(n)]), 'n2:step-inside-box')
    E.prove(np.dot(d, d) <= delta * delta * (1 + E.const('1e-8')) * (1 + E.const('1e-8')), 'n2:step-inside-ball')
    E.prove(_q(E, g0, H, d, n) <= E.const('1e-12'), 'n2:model-not-increased')
    if cauchy:
        _cauchy_obligation(E, g0, H, x0_, sl, su, delta, d, n, 'n2:at-least-cauchy-decrease')


ONESYM = {
    # (g, H, Delta, sl, su, index of the symbolic upper bound, its range): CG reaches the trust-region boundary, the boundary
    # refinement (alt_trust_step) then rotates against ONE symbolic bound -> univariate queries
    'alt-upper': ([-1, -1], [[1, 0.25], [0.25, 0.25]], 1, [-100, -100], [100, None], 1, (0.7, 0.8)),
    'alt-lower': ([1, 1], [[1, 0.25], [0.25, 0.25]], 1, [-100, None], [100, 100], 1, (-0.8, -0.7)),
    'alt-upper-indefinite': ([-1, -0.5], [[1, 0], [0, -1]], 1, [-100, -100], [100, None], 1, (0.5, 0.6)),
    # an interior line minimum first, then the SECOND conjugate-gradient iteration runs into the symbolic bound: the iteration is
    # restarted on the remaining free variable (unconstrained minimiser (0.5, 1.0); no boundary refinement)
    'cg-restart-after-late-bound': ([-3, -1], [[8, -1], [-1, 1.5]], 10, [-100, -100], [100, None], 1, (0.5, 0.9)),
    'cg-restart-after-late-lower-bound': ([3, 1], [[8, -1], [-1, 1.5]], 10, [-100, None], [100, 100], 1, (-0.9, -0.5)),
    # no bound active, minimiser outside the ball: the boundary refinement makes consecutive rotations; the radius is the symbol
    'two-rotations': ([-3, -1], [[8, 1], [1, 3]], None, [-100, -100], [100, 100], 'delta', (0.2, 0.3)),
    # the point starts ON a lower bound (or up to 0.5 inside it) with an inward gradient, so the variable is free; off-diagonal curvature
    # drives it back onto the same bound in a later CG direction (d_i = 0 at that moment)
    'return-to-lower-bound': ([-1, -2], [[2, 0.5], [0.5, 0.25]], 8, [None, -8], [8, 8], 0, (-0.5, 0)),
    'return-to-upper-bound': ([1, 2], [[2, 0.5], [0.5, 0.25]], 8, [-8, -8], [None, 8], 0, (0, 0.5)),
    # (an n = 3 member where the refinement fixes a variable and rotates again - g=(-1,-3,0), H=[[6,4,-2],[4,3,-1],[-2,-1,1]], Delta=4, one symbolic
    #  bound - did not finish a single path in 600 s: out of reach, stated in DESIGN)
    'two-rotations-far-bound': ([-3, -1], [[8, 1], [1, 3]], 0.25, [-100, -100], [100, None], 1, (5, 6)),
}


def body_onesym(E, member):
    np = E.np
    gc, Hc, dc, slc, suc, j, (lo, hi) = ONESYM[member]
    n = len(gc)
    g = E.arr([E.const(str(v)) for v in gc], 'f') if E.symbolic else np.array(gc, dtype=float)
    H = E.arr([[E.const(str(v)) for v in row] for row in Hc], 'f') if E.symbolic else np.array(Hc, dtype=float)
    xopt = E.arr([0] * n, 'f') if E.symbolic else np.zeros(n)
    b = E.real('bound', npy=(j != 'delta'), lo=lo, hi=hi)
    delta = b if j == 'delta' else E.const(str(dc))
    sl = E.arr([E.const(str(v)) if v is not None else b for v in slc], 'f') if E.symbolic else np.array([v if v is not None else b for v in slc], dtype=float)
    su = E.arr([E.const(str(v)) if v is not None else b for v in suc], 'f') if E.symbolic else np.array([v if v is not None else b for v in suc], dtype=float)
    g0 = g.copy()
    d, gnew, crvmin = E.get('trsbox')(xopt, g, H, sl, su, delta, use_fortran=False)
    E.prove(E.all([sl[i] <= d[i] for i in range(n)] + [d[i] <= su[i] for i in range(n)]), '1sym:step-inside-box')
    E.prove(np.dot(d, d) <= delta * delta * (1 + E.const('1e-8')) * (1 + E.const('1e-8')), '1sym:step-inside-ball')
    E.prove(_q(E, g0, H, d, n) <= E.const('1e-12'), '1sym:model-not-increased')
    exp = g0 + np.dot(H, d)
    E.prove(E.all([E.eq(gnew[i], exp[i], tol=1e-7) if not E.symbolic else
                   E.all([gnew[i] - exp[i] <= E.const('1e-9'), exp[i] - gnew[i] <= E.const('1e-9')]) for i in range(n)]), '1sym:returned-gradient-is-g+Hd')
    _cauchy_obligation(E, g0, H, xopt, sl, su, delta, d, n, '1sym:at-least-cauchy-decrease')


# ---------------------------------------------------------------------------------------------------------------------
# Inductive harnesses: ONE (or two) iteration(s) of the real conjugate-gradient loop of trsbox, sliced from the AST, from an
# ARBITRARY state that satisfies the loop invariant CG-INV (everything symbolic: point, box, radius, model Hessian, step so far,
# previous search direction, gradient).  One inductive step covers iteration histories of any length, which is how bound patterns
# that need several bound hits (n >= 3) come into reach.
#   CG-INV: sl <= xopt <= su, sl <= xopt+d <= su, fixed variables sit on their bound, delsq = Delta^2 - sum_fixed d_i^2 > 0,
#           sum_free d_i^2 <= delsq, and (beta != 0  =>  beta > 0, s is zero on fixed variables, gnew_free . s_free = 0,
#           gredsq = |gnew_free|^2)   [conjugacy after an exact line minimisation].
#   property-level obligations after every iteration: point in the box, step in the ball, model change
#           gnew.(d'-d) + (d'-d)H(d'-d)/2 <= 0, gradient update gnew' - gnew = H (d'-d).
#   invariant obligations (inv:*) at every `continue`.

def _find_cg_loop(fn):
    import ast
    from .. import loader
    hits = [s for s in fn.body if isinstance(s, ast.For) and ast.unparse(s.iter) == 'range(MAX_LOOP_ITERS)']
    if len(hits) != 1:
        raise loader.AnchorError("expected exactly one `for .. in range(MAX_LOOP_ITERS)` loop in trsbox, found %d" % len(hits))
    return hits[0].body


def body_cg_iter(E, n, xbdi0, restart, steps):
    from .. import loader
    np = E.np
    zero = E.const(0)
    xopt = E.vec('xo', n)
    sl = E.vec('sl', n)
    su = E.vec('su', n)
    d = E.vec('d', n)
    gnew = E.vec('gn', n)
    hv = {}
    for i in range(n):
        for j in range(i, n):
            hv[(i, j)] = hv[(j, i)] = E.real('H%d_%d' % (i, j))
    H = E.arr([[hv[(i, j)] for j in range(n)] for i in range(n)], 'f') if E.symbolic else np.array([[hv[(i, j)] for j in range(n)] for i in range(n)], dtype=float)
    delta = E.real('delta', npy=False)
    free = [i for i in range(n) if xbdi0[i] == 0]
    fixed = [i for i in range(n) if xbdi0[i] != 0]
    xbdi = E.arr(list(xbdi0), 'i') if E.symbolic else np.array(list(xbdi0), dtype=int)
    E.assume(delta > 0)
    E.assume(E.all([sl[i] <= xopt[i] for i in range(n)] + [xopt[i] <= su[i] for i in range(n)]))
    E.assume(E.all([sl[i] <= xopt[i] + d[i] for i in free] + [xopt[i] + d[i] <= su[i] for i in free]))
    for i in fixed:     # fixed variables sit on their bound: d_i is determined
        d[i] = (su[i] - xopt[i]) if xbdi0[i] == 1 else (sl[i] - xopt[i])
    delsq = delta * delta
    for i in fixed:
        delsq = delsq - d[i] * d[i]
    E.assume(delsq > 0)
    dfree2 = zero
    for i in free:
        dfree2 = dfree2 + d[i] * d[i]
    E.assume(dfree2 <= delsq)
    qred = E.real('qred', npy=False)
    E.assume(qred >= 0)
    gredsq0 = E.real('gredsq0', npy=False)
    E.assume(gredsq0 > 0)
    nact = len(fixed)
    if restart:
        beta = E.const(0)
        s = np.zeros((n,))
        gredsq = E.real('gredsq_stale', npy=False)
        iterc = E.int('iterc', 0, 3)
        itermax = E.int('itermax_stale', 0, 6)
        E.assume(gredsq >= 0)
    else:
        beta = E.real('beta', npy=False)
        E.assume(beta > 0)
        s = E.vec('s', n)
        for i in fixed:
            s[i] = zero
        gs = zero
        gredsq = zero
        for i in free:
            gs = gs + gnew[i] * s[i]
            gredsq = gredsq + gnew[i] * gnew[i]
        E.assume(gs == 0)
        iterc = E.int('iterc', 1, 3)
        itermax = E.int('itermax', 2, 6)
        E.assume(iterc < itermax)
    env = dict(n=n, xopt=xopt, H=H, sl=sl, su=su, delta=delta, d=d, s=s, gnew=gnew, xbdi=xbdi, delsq=delsq, qred=qred, beta=beta,
               gredsq=gredsq, gredsq0=gredsq0, iterc=iterc, itermax=itermax, nact=nact, crvmin=E.const(-1), need_alt_trust_step=False)
    step = E.make_step('trust_region', 'trsbox', _find_cg_loop, '__cg', True)
    for k in range(steps):
        d_old, g_old = env['d'].copy(), env['gnew'].copy()
        qred_old = env['qred']
        try:
            step(env)
            out = 'fallthrough'
        except loader._Continue:
            out = 'continue'
        except loader._Break:
            out = 'break'
        d1, g1, xb = env['d'], env['gnew'], env['xbdi']
        tag = 'cg%d' % (k + 1) if steps > 1 else 'cg'
        xn = xopt + d1
        E.prove(E.all([sl[i] <= xn[i] for i in range(n)] + [xn[i] <= su[i] for i in range(n)]), tag + ':point-stays-in-box')
        E.prove(np.dot(d1, d1) <= delta * delta * (1 + E.const('1e-8')) * (1 + E.const('1e-8')), tag + ':step-stays-in-ball')
        dd = d1 - d_old
        Hdd = np.dot(H, dd)
        E.prove(np.dot(g_old, dd) + E.const('0.5') * np.dot(dd, Hdd) <= E.const('1e-12'), tag + ':model-not-increased-by-iteration')
        exp = g_old + Hdd
        E.prove(E.all([E.eq(g1[i], exp[i], tol=1e-7) for i in range(n)]), tag + ':gradient-updated-by-H-times-step-change')
        E.prove(env['qred'] >= qred_old, tag + ':recorded-reduction-not-decreased')
        xbl = [int(v) for v in E.flat(xb)]
        if out == 'break':
            if not env['need_alt_trust_step']:
                dfin = E.get('d_within_bounds')(d1, xopt, sl, su, xb)
                E.prove(np.dot(dfin, dfin) <= delta * delta * (1 + E.const('1e-8')) * (1 + E.const('1e-8')), tag + ':returned-step-in-ball')
            # fixed variables are exactly on their bounds when the loop is left (alt_trust_step / d_within_bounds rely on it)
            E.prove(E.all([E.eq(xn[i], su[i] if xbl[i] == 1 else sl[i], tol=1e-9) for i in range(n) if xbl[i] != 0] or [True]), tag + ':fixed-variables-on-their-bounds-at-exit')
            return
        # `continue`: the invariant is re-established
        fx = [i for i in range(n) if xbl[i] != 0]
        fr = [i for i in range(n) if xbl[i] == 0]
        E.prove(E.all([E.eq(xn[i], su[i] if xbl[i] == 1 else sl[i], tol=1e-9) for i in fx] or [True]), 'inv:fixed-variables-on-their-bounds')
        E.prove(env['nact'] == len(fx), 'inv:nact-counts-fixed-variables')
        ds2 = delta * delta
        for i in fx:
            ds2 = ds2 - d1[i] * d1[i]
        E.prove(E.eq(env['delsq'], ds2, tol=1e-9), 'inv:delsq-is-radius-left-for-free-variables')
        E.prove(env['delsq'] > 0, 'inv:delsq-positive')
        f2 = zero
        for i in fr:
            f2 = f2 + d1[i] * d1[i]
        E.prove(f2 <= env['delsq'] * (1 + E.const('1e-8')), 'inv:free-part-within-delsq')
        b1 = env['beta']
        if E.is_true(b1 == 0):
            pass
        else:
            s1 = env['s']
            gs1, gg1 = zero, zero
            for i in fr:
                gs1 = gs1 + g1[i] * s1[i]
                gg1 = gg1 + g1[i] * g1[i]
            E.prove(b1 > 0, 'inv:beta-positive')
            E.prove(E.eq(gs1, zero, tol=1e-7), 'inv:new-gradient-orthogonal-to-direction')
            E.prove(E.eq(env['gredsq'], gg1, tol=1e-9), 'inv:gredsq-is-free-gradient-norm')
            E.prove(env['iterc'] < env['itermax'], 'inv:iteration-counter-below-limit')
            E.prove(E.all([E.eq(s1[i], zero) for i in fx] or [True]), 'inv:direction-zero-on-fixed-variables')


def body_clip_fp(E):
    """binary64: the step is fl(xnew - xopt) for a point xnew = clip(xopt + d0) that lies in [sl, su] exactly.
    (Monotonicity of rounding, fl(sl - xopt) <= d <= fl(su - xopt), is an IEEE fact neither z3 nor cvc5 decided in 300 s;
    exactness of the evaluated point itself is C01's final clip.)"""
    d_within_bounds = E.get('d_within_bounds')
    xopt = E.vec('xo', 1, fp=True)
    d0 = E.vec('d0', 1, fp=True)
    sl = E.vec('sl', 1, fp=True)
    su = E.vec('su', 1, fp=True)
    if E.symbolic:
        import z3
        for a in (xopt, d0, sl, su):
            for v in a.flat():
                E.assume(sym.wrapb(z3.Not(z3.Or(z3.fpIsNaN(v.t), z3.fpIsInf(v.t)))), check=False)
    E.assume(E.all([sl[0] <= xopt[0], xopt[0] <= su[0], xopt[0] >= -1000, xopt[0] <= 1000, sl[0] >= -1000, su[0] <= 1000,
                    d0[0] >= -1000, d0[0] <= 1000]), check=False)
    xbdi = E.arr([0], 'i')
    d = d_within_bounds(d0, xopt, sl, su, xbdi)
    if not E.symbolic:
        return
    import z3
    t = d[0].t
    # structure of the returned term: d = fl(xnew - xopt); the clipped point xnew itself must lie in the box exactly
    ok = z3.is_app(t) and t.decl().kind() == z3.Z3_OP_FPA_SUB and t.num_args() == 3 and t.arg(2).eq(xopt[0].t)
    E.prove(bool(ok), 'clip:step-is-clipped-point-minus-xopt')
    if ok:
        xnew = sym.SFP(t.arg(1))
        E.prove(E.all([sl[0] <= xnew, xnew <= su[0]]), 'clip:clipped-point-exactly-in-box')


def _cg_grid(tier):
    import itertools
    n2 = [p for p in itertools.product((0, 1, -1), repeat=2) if 0 in p]
    if tier == 'quick':
        return []       # measured: 60-90 paths and 200+ s per member (numpy division semantics + sqrt): thorough tier only
    n3 = [(0, 0, 0), (1, 0, 0), (0, -1, 0), (1, -1, 0)]
    # (two-iteration and n = 3 members were written and tried: a single path needs dozens of long queries and ignores every budget - not registered)
    return [(2, n2, 1)]


FUNCS = ['trust_region.trsbox', 'trust_region.alt_trust_step', 'trust_region.d_within_bounds']


def harnesses(tier, seed):
    hs = []
    q = 20000 if tier == 'quick' else 120000
    nra = lambda: core.Cfg(fork_queries=True, qtimeout_ms=q, nra_first_ms=5000, portfolio=True, portfolio_s=(45 if tier == 'quick' else 240), portfolio_logic='QF_NRA', ite_minmax=True)
    hs.append(Harness("trsbox[n=1,all-symbolic]", 'dfverif.checks.c12', 'body_n1', params={}, cfg=nra(), functions=FUNCS,
                      bounds="n=1; xopt, g, H, box, Delta all symbolic",
                      assumptions=["|g|^2 > 1e-18 or g = 0, Delta >= 1e-9, |g| <= 1e9 (below the code's absolute cut-offs gredsq <= 1e-18 / stplen <= 1e-30 the zero step is returned by design)",
                                   "real arithmetic (QF_NRA); the Cauchy step is any admissible steepest-descent length up to the 1-D minimiser (universally quantified)"],
                      expect=['n1:step-inside-box', 'n1:at-least-cauchy-decrease'], nproc=None, wall_budget=(200 if tier == 'quick' else 1500)))
    # measured: zero H completes in seconds; members with curvature run into rational expressions of growing degree
    # (mostly `unknown` at 10-20 s/query) - they are explored in the thorough tier under a budget and reported as not exhaustive
    members = ['zeroH', 'n3-zeroH'] if tier == 'quick' else list(FAMILY.keys())
    for mname in members:
        hs.append(Harness("trsbox[n=%d,%s]" % (len(FAMILY[mname][1]), mname), 'dfverif.checks.c12', 'body_n2', params=dict(member=mname, cauchy=(tier != 'quick')), cfg=nra(), functions=FUNCS,
                          bounds="n=%d; (g, H, Delta) = family member '%s' and xopt concrete (trsbox only uses sl-xopt, su-xopt), the box symbolic" % (len(FAMILY[mname][1]), mname),
                          assumptions=["semi-symbolic: concrete model data, symbolic geometry", "real arithmetic (QF_NRA)"],
                          expect=['n2:step-inside-box'], nproc=None, wall_budget=(150 if tier == 'quick' else 1500), expect_exhaustive=False,
                          max_paths=(400 if tier == 'quick' else 5000)))
    for mname in (['cg-restart-after-late-bound', 'return-to-lower-bound'] if tier == 'quick' else list(ONESYM.keys())):      # (the alt-* and two-rotations members: 5-9 min each and partly 'unknown' - measured; thorough only)
        hs.append(Harness("trsbox[n=%d,one-symbolic-bound,%s]" % (len(ONESYM[mname][0]), mname), 'dfverif.checks.c12', 'body_onesym', params=dict(member=mname), cfg=nra(), functions=FUNCS,
                          bounds="n=%d; g, H, Delta, xopt and all bounds but one concrete, ONE bound symbolic in a range around the value where it limits the step" % len(ONESYM[mname][0]),
                          assumptions=["semi-symbolic with one symbol", "real arithmetic (QF_NRA); gnew compared to 1e-9 absolute"],
                          expect=['1sym:step-inside-box'], nproc=None, wall_budget=(150 if tier == 'quick' else 900), expect_exhaustive=False, max_paths=300))
    for (n, pats, steps) in _cg_grid(tier):
        for xb in pats:
            for restart in (True, False):
                hs.append(Harness("cg-iteration[n=%d,fixed=%s,%s,steps=%d]" % (n, ''.join('+' if v == 1 else '-' if v == -1 else '0' for v in xb), 'restart' if restart else 'conjugate', steps),
                                  'dfverif.checks.c12', 'body_cg_iter', params=dict(n=n, xbdi0=list(xb), restart=restart, steps=steps),
                                  cfg=core.Cfg(fork_queries=True, qtimeout_ms=30000, nra_first_ms=5000, portfolio=True, portfolio_s=45, portfolio_logic='QF_NRA', ite_minmax=True), functions=FUNCS,
                                  bounds="n=%d, %d iteration(s) of the sliced CG loop of trsbox from ANY state satisfying CG-INV; xopt, box, Delta, H (symmetric), d, s, gnew all symbolic; fixed-variable pattern %s" % (n, steps, list(xb)),
                                  assumptions=["CG-INV at the loop head (DESIGN 4/C12): box, fixed variables on their bounds, delsq = Delta^2 - sum_fixed d_i^2 > 0, |d_free|^2 <= delsq, conjugacy when beta != 0",
                                               "real arithmetic (QF_NRA); the model gradient g enters only through gnew (obligations are stated relative to the pre-state)"],
                                  expect=['cg:point-stays-in-box' if steps == 1 else 'cg1:point-stays-in-box'], nproc=1,
                                  wall_budget=600, expect_exhaustive=False, max_paths=2000))
    hs.append(Harness("clip-binary64", 'dfverif.checks.c12', 'body_clip_fp', params={}, cfg=core.Cfg(fork_queries=True, qtimeout_ms=120000, logic='QF_FP'),
                      functions=['trust_region.d_within_bounds'], bounds="IEEE binary64, one coordinate, |values| <= 1000",
                      assumptions=["finite inputs, sl <= xopt <= su"], expect=['clip:clipped-point-exactly-in-box'], nproc=1, replay=False))
    return hs


def run(tier, seed):
    return run_property(
        'C12', harnesses(tier, seed), tier, seed,
        explanation="QF_NRA symbolic execution of the real trsbox/alt_trust_step/d_within_bounds: n=1 fully symbolic, n=2 semi-symbolic "
                    "(concrete model family, symbolic box and point): step in box, in ball (1e-8), model not increased, gnew = g + H d, at "
                    "least Cauchy decrease (for every admissible steepest-descent length). Dimensions 3..8 are outside the bound. "
                    "binary64 lemma for the final clip.")
