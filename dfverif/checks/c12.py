"""
C12 - the box trust-region subproblem solver returns feasible, decreasing steps.

Real trsbox + alt_trust_step + d_within_bounds (use_fortran=False).
  n = 1: everything symbolic (QF_NRA).   n = 2: semi-symbolic - (g, H, Delta) from a finite family
  (full-rank / rank-1 / zero / indefinite H, g over decades), box and current point symbolic: the rare thing,
  the active / nearly-active pattern, stays universally quantified.
  binary64 lemma for "exactly": d = clip(xopt + d0, sl, su) - xopt  =>  fl(sl - xopt) <= d <= fl(su - xopt).
"""
from fractions import Fraction

from ..harness import Harness, run_property
from .. import core, sym


def _q(E, g, H, d, n):
    np = E.np
    return np.dot(d, g) + E.const('0.5') * np.dot(d, np.dot(H, d))


def _cauchy_obligation(E, g, H, xopt, sl, su, delta, d, n, label):
    """q(d) <= q(t*(-g_free)) for the steepest-descent step truncated at the first bound / the ball / the 1-D minimiser.
    Written for an ARBITRARY admissible step length t (universally quantified), which includes the truncated one."""
    np = E.np
    t = E.real('cauchy_t', npy=False)
    free = [E.no(E.any([E.all([xopt[i] <= sl[i], g[i] >= 0]), E.all([xopt[i] >= su[i], g[i] <= 0])])) for i in range(n)]
    s = [E.ite(free[i], -g[i], 0 * g[i]) for i in range(n)]
    from ..arr import SArr
    sv = SArr.from_flat(s, (n,), 'f') if E.symbolic else np.array(s, dtype=float)
    dc = t * sv
    xc = xopt + dc
    adm = E.all([t >= 0, np.dot(dc, dc) <= delta * delta] + [sl[i] <= xc[i] for i in range(n)] + [xc[i] <= su[i] for i in range(n)])
    # steepest descent up to the first of: bound, ball, 1-D minimiser -> along the ray q is decreasing up to the 1-D minimiser
    shs = np.dot(sv, np.dot(H, sv))
    gs = np.dot(g, sv)
    before_min = E.any([shs <= 0, t * shs <= -gs])
    E.prove(E.implies(E.all([adm, before_min]), _q(E, g, H, d, n) <= _q(E, g, H, dc, n) + E.const('1e-12')), label)


def body_n1(E):
    np = E.np
    n = 1
    xopt = E.vec('xo', n)
    g = E.vec('g', n)
    H = E.mat('H', n, n)
    sl = E.vec('sl', n)
    su = E.vec('su', n)
    delta = E.real('delta', npy=False)
    E.assume(E.all([delta > 0, sl[0] <= xopt[0], xopt[0] <= su[0]]))
    # the code's own absolute cut-offs (gredsq <= 1e-18, stplen <= 1e-30) return the zero step by design: keep |g| away from them
    E.assume(E.any([g[0] == 0, g[0] * g[0] > E.const('1e-18')]))
    E.assume(E.all([delta >= E.const('1e-9'), g[0] <= E.const(10 ** 9), g[0] >= -E.const(10 ** 9)]))   # step lengths stay above the 1e-30 cut-off
    g0, x0_ = g.copy(), xopt.copy()
    d, gnew, crvmin = E.get('trsbox')(xopt, g, H, sl, su, delta, use_fortran=False)
    xn = x0_ + d
    E.prove(E.all([sl[0] <= xn[0], xn[0] <= su[0]]), 'n1:step-inside-box')
    E.prove(np.dot(d, d) <= delta * delta * (1 + E.const('1e-8')) * (1 + E.const('1e-8')), 'n1:step-inside-ball')
    E.prove(_q(E, g0, H, d, n) <= 0, 'n1:model-not-increased')
    exp = g0 + np.dot(H, d)
    E.prove(E.all([E.eq(gnew[i], exp[i]) for i in range(n)]), 'n1:returned-gradient-is-g+Hd')
    _cauchy_obligation(E, g0, H, x0_, sl, su, delta, d, n, 'n1:at-least-cauchy-decrease')


FAMILY = {
    'fullrank': ([[2, 0.5], [0.5, 1]], [1, -2], 1),
    'fullrank-small-g': ([[2, 0.5], [0.5, 1]], [1e-3, -2e-3], 1),
    'zeroH': ([[0, 0], [0, 0]], [1, 1], 1),
    'rank1': ([[2, 2], [2, 2]], [1, -1], 0.5),
    'indefinite': ([[1, 0], [0, -1]], [1, 1], 1),
    'suite-con-internal': ([[2, 0], [0, 2]], [-2, -2], 2),
}


def body_n2(E, member, cauchy=False):
    np = E.np
    n = 2
    Hc, gc, dc = FAMILY[member]
    g = E.arr([E.const(str(v)) for v in gc], 'f') if E.symbolic else np.array(gc, dtype=float)
    H = E.arr([[E.const(str(v)) for v in row] for row in Hc], 'f') if E.symbolic else np.array(Hc, dtype=float)
    delta = E.const(str(dc))
    xopt = E.arr([E.const('0.25'), E.const('-0.5')], 'f') if E.symbolic else np.array([0.25, -0.5])
    sl = E.vec('sl', n)
    su = E.vec('su', n)
    E.assume(E.all([sl[i] <= xopt[i] for i in range(n)] + [xopt[i] <= su[i] for i in range(n)]))
    g0, x0_ = g.copy(), xopt.copy()
    d, gnew, crvmin = E.get('trsbox')(xopt, g, H, sl, su, delta, use_fortran=False)
    xn = x0_ + d
    E.prove(E.all([sl[i] <= xn[i] for i in range(n)] + [xn[i] <= su[i] for i in range(n)]), 'n2:step-inside-box')
    E.prove(np.dot(d, d) <= delta * delta * (1 + E.const('1e-8')) * (1 + E.const('1e-8')), 'n2:step-inside-ball')
    E.prove(_q(E, g0, H, d, n) <= E.const('1e-12'), 'n2:model-not-increased')
    if cauchy:
        _cauchy_obligation(E, g0, H, x0_, sl, su, delta, d, n, 'n2:at-least-cauchy-decrease')


ONESYM = {
    # (g, H, Delta, sl, su, index of the symbolic upper bound, its range): CG reaches the trust-region boundary, the boundary
    # refinement (alt_trust_step) then rotates against ONE symbolic bound -> univariate queries
    'alt-upper': ([-1, -1], [[1, 0.25], [0.25, 0.25]], 1, [-100, -100], [100, None], 1, (0.7, 0.8)),
    'alt-lower': ([1, 1], [[1, 0.25], [0.25, 0.25]], 1, [-100, None], [100, 100], 1, (-0.8, -0.7)),
    'alt-upper-indefinite': ([-1, -0.5], [[1, 0], [0, -1]], 1, [-100, -100], [100, None], 1, (0.5, 0.6)),
    # an interior line minimum first, then the SECOND conjugate-gradient iteration runs into the symbolic bound: the iteration is
    # restarted on the remaining free variable (unconstrained minimiser (0.5, 1.0); no boundary refinement)
    'cg-restart-after-late-bound': ([-3, -1], [[8, -1], [-1, 1.5]], 10, [-100, -100], [100, None], 1, (0.5, 0.9)),
    'cg-restart-after-late-lower-bound': ([3, 1], [[8, -1], [-1, 1.5]], 10, [-100, None], [100, 100], 1, (-0.9, -0.5)),
    # no bound active, minimiser outside the ball: the boundary refinement makes consecutive rotations; the radius is the symbol
    'two-rotations': ([-3, -1], [[8, 1], [1, 3]], None, [-100, -100], [100, 100], 'delta', (0.2, 0.3)),
    'two-rotations-far-bound': ([-3, -1], [[8, 1], [1, 3]], 0.25, [-100, -100], [100, None], 1, (5, 6)),
}


def body_onesym(E, member):
    np = E.np
    n = 2
    gc, Hc, dc, slc, suc, j, (lo, hi) = ONESYM[member]
    g = E.arr([E.const(str(v)) for v in gc], 'f') if E.symbolic else np.array(gc, dtype=float)
    H = E.arr([[E.const(str(v)) for v in row] for row in Hc], 'f') if E.symbolic else np.array(Hc, dtype=float)
    xopt = E.arr([0, 0], 'f') if E.symbolic else np.zeros(2)
    b = E.real('bound', npy=(j != 'delta'), lo=lo, hi=hi)
    delta = b if j == 'delta' else E.const(str(dc))
    sl = E.arr([E.const(str(v)) if v is not None else b for v in slc], 'f') if E.symbolic else np.array([v if v is not None else b for v in slc], dtype=float)
    su = E.arr([E.const(str(v)) if v is not None else b for v in suc], 'f') if E.symbolic else np.array([v if v is not None else b for v in suc], dtype=float)
    g0 = g.copy()
    d, gnew, crvmin = E.get('trsbox')(xopt, g, H, sl, su, delta, use_fortran=False)
    E.prove(E.all([sl[i] <= d[i] for i in range(n)] + [d[i] <= su[i] for i in range(n)]), '1sym:step-inside-box')
    E.prove(np.dot(d, d) <= delta * delta * (1 + E.const('1e-8')) * (1 + E.const('1e-8')), '1sym:step-inside-ball')
    E.prove(_q(E, g0, H, d, n) <= E.const('1e-12'), '1sym:model-not-increased')
    exp = g0 + np.dot(H, d)
    E.prove(E.all([E.eq(gnew[i], exp[i], tol=1e-7) if not E.symbolic else
                   E.all([gnew[i] - exp[i] <= E.const('1e-9'), exp[i] - gnew[i] <= E.const('1e-9')]) for i in range(n)]), '1sym:returned-gradient-is-g+Hd')
    _cauchy_obligation(E, g0, H, xopt, sl, su, delta, d, n, '1sym:at-least-cauchy-decrease')


def body_clip_fp(E):
    """binary64: the step is fl(xnew - xopt) for a point xnew = clip(xopt + d0) that lies in [sl, su] exactly.
    (Monotonicity of rounding, fl(sl - xopt) <= d <= fl(su - xopt), is an IEEE fact neither z3 nor cvc5 decided in 300 s;
    exactness of the evaluated point itself is C01's final clip.)"""
    d_within_bounds = E.get('d_within_bounds')
    xopt = E.vec('xo', 1, fp=True)
    d0 = E.vec('d0', 1, fp=True)
    sl = E.vec('sl', 1, fp=True)
    su = E.vec('su', 1, fp=True)
    if E.symbolic:
        import z3
        for a in (xopt, d0, sl, su):
            for v in a.flat():
                E.assume(sym.wrapb(z3.Not(z3.Or(z3.fpIsNaN(v.t), z3.fpIsInf(v.t)))), check=False)
    E.assume(E.all([sl[0] <= xopt[0], xopt[0] <= su[0], xopt[0] >= -1000, xopt[0] <= 1000, sl[0] >= -1000, su[0] <= 1000,
                    d0[0] >= -1000, d0[0] <= 1000]), check=False)
    xbdi = E.arr([0], 'i')
    d = d_within_bounds(d0, xopt, sl, su, xbdi)
    if not E.symbolic:
        return
    import z3
    t = d[0].t
    # structure of the returned term: d = fl(xnew - xopt); the clipped point xnew itself must lie in the box exactly
    ok = z3.is_app(t) and t.decl().kind() == z3.Z3_OP_FPA_SUB and t.num_args() == 3 and t.arg(2).eq(xopt[0].t)
    E.prove(bool(ok), 'clip:step-is-clipped-point-minus-xopt')
    if ok:
        xnew = sym.SFP(t.arg(1))
        E.prove(E.all([sl[0] <= xnew, xnew <= su[0]]), 'clip:clipped-point-exactly-in-box')


FUNCS = ['trust_region.trsbox', 'trust_region.alt_trust_step', 'trust_region.d_within_bounds']


def harnesses(tier, seed):
    hs = []
    q = 20000 if tier == 'quick' else 120000
    nra = lambda: core.Cfg(fork_queries=True, qtimeout_ms=q, nra_first_ms=5000, portfolio=True, portfolio_s=(45 if tier == 'quick' else 240), portfolio_logic='QF_NRA', ite_minmax=True)
    hs.append(Harness("trsbox[n=1,all-symbolic]", 'dfverif.checks.c12', 'body_n1', params={}, cfg=nra(), functions=FUNCS,
                      bounds="n=1; xopt, g, H, box, Delta all symbolic",
                      assumptions=["|g|^2 > 1e-18 or g = 0, Delta >= 1e-9, |g| <= 1e9 (below the code's absolute cut-offs gredsq <= 1e-18 / stplen <= 1e-30 the zero step is returned by design)",
                                   "real arithmetic (QF_NRA); the Cauchy step is any admissible steepest-descent length up to the 1-D minimiser (universally quantified)"],
                      expect=['n1:step-inside-box', 'n1:at-least-cauchy-decrease'], nproc=None, wall_budget=(200 if tier == 'quick' else 1500)))
    # measured: zero H completes in seconds; members with curvature run into rational expressions of growing degree
    # (mostly `unknown` at 10-20 s/query) - they are explored in the thorough tier under a budget and reported as not exhaustive
    members = ['zeroH'] if tier == 'quick' else list(FAMILY.keys())
    for mname in members:
        hs.append(Harness("trsbox[n=2,%s]" % mname, 'dfverif.checks.c12', 'body_n2', params=dict(member=mname, cauchy=(tier != 'quick')), cfg=nra(), functions=FUNCS,
                          bounds="n=2; (g, H, Delta) = family member '%s' and xopt = (0.25, -0.5) concrete (trsbox only uses sl-xopt, su-xopt), the box symbolic" % mname,
                          assumptions=["semi-symbolic: concrete model data, symbolic geometry", "real arithmetic (QF_NRA)"],
                          expect=['n2:step-inside-box'], nproc=None, wall_budget=(150 if tier == 'quick' else 1500), expect_exhaustive=False,
                          max_paths=(400 if tier == 'quick' else 5000)))
    for mname in (['cg-restart-after-late-bound', 'two-rotations-far-bound'] if tier == 'quick' else list(ONESYM.keys())):      # (the alt-* members: 5 min each and mostly 'unknown' without the portfolio - measured)
        hs.append(Harness("trsbox[n=2,one-symbolic-bound,%s]" % mname, 'dfverif.checks.c12', 'body_onesym', params=dict(member=mname), cfg=nra(), functions=FUNCS,
                          bounds="n=2; g, H, Delta, xopt and three bounds concrete, ONE bound symbolic in a range around the value where the boundary refinement is limited by it",
                          assumptions=["semi-symbolic with one symbol", "real arithmetic (QF_NRA); gnew compared to 1e-9 absolute"],
                          expect=['1sym:step-inside-box'], nproc=None, wall_budget=(150 if tier == 'quick' else 900), expect_exhaustive=False, max_paths=300))
    hs.append(Harness("clip-binary64", 'dfverif.checks.c12', 'body_clip_fp', params={}, cfg=core.Cfg(fork_queries=True, qtimeout_ms=120000, logic='QF_FP'),
                      functions=['trust_region.d_within_bounds'], bounds="IEEE binary64, one coordinate, |values| <= 1000",
                      assumptions=["finite inputs, sl <= xopt <= su"], expect=['clip:clipped-point-exactly-in-box'], nproc=1, replay=False))
    return hs


def run(tier, seed):
    return run_property(
        'C12', harnesses(tier, seed), tier, seed,
        explanation="QF_NRA symbolic execution of the real trsbox/alt_trust_step/d_within_bounds: n=1 fully symbolic, n=2 semi-symbolic "
                    "(concrete model family, symbolic box and point): step in box, in ball (1e-8), model not increased, gnew = g + H d, at "
                    "least Cauchy decrease (for every admissible steepest-descent length). Dimensions 3..8 are outside the bound. "
                    "binary64 lemma for the final clip.")
