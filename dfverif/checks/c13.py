"""
C13 - geometry and convex-constrained step solvers stay inside their regions.

(a) trsbox_linear (active-set solution of the linear problem over box and ball): feasibility and global optimality
    as an existential competitor query, everything symbolic (QF_NRA), n <= 2 (3 thorough).
(b) trsbox_geometry: choice between the two linear solutions (trsbox_linear summarised by its proved contract).
(c) pball lands in its ball.  (d) ctrsbox_pgd / ctrsbox_sfista / ctrsbox_linear / ctrsbox_geometry: the returned step is
    (an output of the alternating projection whose LAST projector is the trust-region ball) - centre.
(e) Controller.trust_region_step with a regulariser: predicted reduction of the step handed back is >= 0 (zero step otherwise).
"""
from ..harness import Harness, run_property
from .. import core
from ..state import mk_h

ZT = '1e-14'


def _gcond(E, g, n):
    # components below ZERO_THRESH are zeroed by design: keep the cut-off region out (documented behaviour)
    E.assume(E.all([E.any([g[i] == 0, g[i] >= E.const(ZT), g[i] <= -E.const(ZT)]) for i in range(n)]))


def body_linear(E, n):
    np = E.np
    trsbox_linear = E.get('trsbox_linear')
    g = E.vec('g', n)
    a = E.vec('a', n)
    b = E.vec('b', n)
    Delta = E.real('Delta', npy=False)
    E.assume(E.all([Delta > 0] + [a[i] <= 0 for i in range(n)] + [b[i] >= 0 for i in range(n)]))
    _gcond(E, g, n)
    g0 = g.copy()
    x = trsbox_linear(g, a, b, Delta, use_fortran=False)
    zt = E.const(ZT)
    E.prove(E.all([E.ite(a[i] < -zt, a[i], -zt) <= x[i] for i in range(n)] + [x[i] <= E.ite(b[i] > zt, b[i], zt) for i in range(n)]),
            'linear:inside-box(loosened-by-1e-14)')
    E.prove(np.dot(x, x) <= Delta * Delta * (1 + E.const('1e-8')) * (1 + E.const('1e-8')), 'linear:inside-ball')
    val = np.dot(g0, x)
    E.prove(val <= 0, 'linear:never-worse-than-not-moving')
    # global optimality: no feasible competitor is better by more than 1e-6 relative
    s = E.vec('comp', n)
    feas = E.all([a[i] <= s[i] for i in range(n)] + [s[i] <= b[i] for i in range(n)] + [np.dot(s, s) <= Delta * Delta])
    better = np.dot(g0, s) < val + E.const('1e-6') * val      # val <= 0: val*(1+1e-6) is 1e-6 relative better
    E.prove(E.no(E.all([feas, better])), 'linear:globally-optimal-to-1e-6')


def body_geometry(E, n):
    """choice logic of trsbox_geometry; the two linear solutions are arbitrary optimal points (contract of (a))"""
    np = E.np
    xbase = E.vec('xb', n)
    lower = E.vec('lo', n)
    upper = E.vec('up', n)
    c = E.real('c')
    g = E.vec('g', n)
    Delta = E.real('Delta', npy=False)
    E.assume(E.all([Delta > 0] + [lower[i] <= xbase[i] for i in range(n)] + [xbase[i] <= upper[i] for i in range(n)]))
    calls = []
    s_any = E.vec('any', n)     # an arbitrary feasible step

    def feasible(s, a_, b_):
        return E.all([a_[i] <= s[i] for i in range(n)] + [s[i] <= b_[i] for i in range(n)] + [np.dot(s, s) <= Delta * Delta])

    def trsbox_linear(gg, a_in, b_in, D, use_fortran=False):
        k = len(calls)
        s = E.vec('lin%d_' % k, n)
        E.assume(feasible(s, a_in, b_in))
        E.assume(E.implies(feasible(s_any, a_in, b_in), np.dot(gg, s) <= np.dot(gg, s_any)))    # optimal (against an arbitrary point)
        E.assume(np.dot(gg, s) <= 0)                                                            # ... and against not moving
        calls.append((gg.copy(), a_in.copy(), b_in.copy(), D, s))
        return s
    E.patch('trsbox_linear', trsbox_linear)
    x = E.get('trsbox_geometry')(xbase, c, g, lower, upper, Delta, use_fortran=False)
    E.prove(len(calls) == 2, 'geometry:two-linear-problems')
    for k, (gg, a_in, b_in, D, s) in enumerate(calls):
        sign = 1 if k == 0 else -1
        E.prove(E.all([E.eq(gg[i], sign * g[i]) for i in range(n)] + [E.eq(a_in[i], lower[i] - xbase[i]) for i in range(n)] +
                      [E.eq(b_in[i], upper[i] - xbase[i]) for i in range(n)] + [E.eq(D, Delta)]), 'geometry:linear-problems-posed-on-the-shifted-box')
    s = x - xbase
    absv = lambda v: E.ite(v >= 0, v, -v)
    L = absv(c + np.dot(g, s))
    E.prove(L >= absv(c), 'geometry:never-worse-than-not-moving')
    E.prove(E.all([lower[i] <= x[i] for i in range(n)] + [x[i] <= upper[i] for i in range(n)]), 'geometry:inside-box')
    E.prove(np.dot(s, s) <= Delta * Delta, 'geometry:inside-ball')
    E.prove(E.implies(feasible(s_any, lower - xbase, upper - xbase), L >= absv(c + np.dot(g, s_any))), 'geometry:global-maximum-of-|c+g.s|')


def body_pball(E, n):
    np = E.np
    x = E.vec('x', n)
    c = E.vec('c', n)
    r = E.real('r', npy=False)
    E.assume(r > 0)
    p = E.get('pball')(x, c, r)
    d = p - c
    E.prove(np.dot(d, d) <= r * r, 'pball:lands-in-ball')
    dx = x - c
    E.prove(E.implies(np.dot(dx, dx) <= r * r, E.all([E.eq(p[i], x[i]) for i in range(n)])), 'pball:identity-inside')


def body_cstruct(E, which, n):
    """the step returned by the convex-constrained solvers is (Dykstra output with the ball projected LAST) - centre"""
    np = E.np
    pball = E.get('pball')
    xopt = E.vec('xo', n)
    g = E.vec('g', n)
    H = E.mat('H', n, n)
    if n == 2:
        H[1, 0] = H[0, 1]
    delta = E.real('delta', npy=False)
    E.assume(delta > 0)
    userP = [lambda w: w]
    outs = []
    w_test = E.vec('wt', n)
    E.cap_loops(2)

    def dykstra(P, x0, max_iter=100, tol=1e-10):
        k = len(outs)
        z = E.vec('dyk%d_' % k, n)
        # the last projector must be the trust-region ball around the centre with the right radius
        last = P[-1](w_test)
        ref = pball(w_test, xopt, delta)
        E.prove(len(P) == len(userP) + 1 and P[0] is userP[0], which + ':user-projectors-first')
        E.prove(E.all([E.eq(last[i], ref[i]) for i in range(n)]), which + ':ball-projected-last-with-right-centre-and-radius')
        outs.append(z)
        return z
    E.patch('dykstra', dykstra)
    # (norm of H as spectral norm is LAPACK-level for n=2: arbitrary non-negative value)
    E.hooks(la=lambda name, args, kw: E.real('normH', lo=0) if name == 'norm2' else NotImplemented)
    if which == 'pgd':
        d, gnew, crvmin = E.get('ctrsbox_pgd')(xopt, g, H, userP, delta, use_fortran=False)
    elif which == 'sfista':
        h = mk_h(E, n)
        Lh = E.real('Lh', npy=False)
        E.assume(Lh > 0)
        prox = lambda x, u, *a: x
        d, gnew, crvmin = E.get('ctrsbox_sfista')(xopt, g, H, userP, delta, h, Lh, prox, func_tol=E.const('0.001'), max_iters=2, use_fortran=False)
    elif which == 'linear':
        d = E.get('ctrsbox_linear')(xopt, g, userP, delta, use_fortran=False)
    else:
        c = E.real('c')
        d = E.get('ctrsbox_geometry')(xopt, c, g, userP, delta, use_fortran=False)
    E.prove(len(outs) >= 1, which + ':at-least-one-projection')
    if outs:
        E.prove(E.any([E.all([E.eq(d[i], z[i] - xopt[i]) for i in range(n)]) for z in outs]), which + ':step-is-a-projection-output-minus-centre')


def body_trs_regularised(E, n, proj=False, scaling=False):
    """Controller.trust_region_step with h: the step handed back never has a negative predicted reduction"""
    from ..state import mk_controller, EvalLog, mk_objfun
    np = E.np
    C, M, ghost, params = mk_controller(E, n, 1, n + 1, n + 1, with_h=True, with_save=False, objfun=None, kopt_minimal=True, scaling=scaling)
    if proj:
        # general convex constraints: the model maps points to user space through the alternating projection (identity stand-in here)
        M.projections = [lambda w: w, lambda w: w]
        E.patch('dykstra', lambda P, x0, max_iter=100, tol=1e-10: x0.copy())
    dstub = E.vec('dS', n)

    def sfista(xopt, g, H, projections, delta, h, L_h, prox_uh, **kw):
        return dstub.copy(), E.vec('gS', n), E.real('crv')
    E.patch('ctrsbox_sfista', sfista)
    E.hooks(la=lambda name, args, kw: E.real('normH', lo=0) if name == 'norm2' else NotImplemented)   # spectral norm of H: LAPACK-level for n >= 2
    d, gopt, H, gnew, crvmin = C.trust_region_step(params, E.real('crit', npy=False, lo=0))
    x = M.xopt(abs_coordinates=True)
    us = (lambda v: v) if not scaling else (lambda v: E.get('remove_scaling')(v, C.scaling_changes))     # h is a function of the point in user units
    pred = M.h(us(x)) - (np.dot(d, gopt + E.const('0.5') * np.dot(H, d)) + M.h(us(x + d)))
    E.prove(pred >= 0, 'regularised-step:predicted-reduction-non-negative')
    zero = E.all([d[i] == 0 for i in range(n)])
    same = E.all([E.eq(d[i], dstub[i]) for i in range(n)])
    E.prove(E.any([zero, same]), 'regularised-step:solver-step-or-zero-step')


FUNCS = ['trust_region.trsbox_linear', 'trust_region.ball_step', 'trust_region.trsbox_geometry', 'util.pball', 'trust_region.ctrsbox_pgd',
         'trust_region.ctrsbox_sfista', 'trust_region.ctrsbox_linear', 'trust_region.ctrsbox_geometry', 'controller.Controller.trust_region_step',
         'util.model_value', 'model.Model.build_full_model']


def harnesses(tier, seed):
    hs = []
    q = 30000 if tier == 'quick' else 120000
    nra = lambda: core.Cfg(fork_queries=True, qtimeout_ms=q, portfolio=True, portfolio_s=(60 if tier == 'quick' else 240), portfolio_logic='QF_NRA')
    for n in ([1, 2] if tier == 'quick' else [1, 2, 3]):
        hs.append(Harness("trsbox_linear[n=%d]" % n, 'dfverif.checks.c13', 'body_linear', params=dict(n=n), cfg=nra(), functions=FUNCS,
                          bounds="n=%d, everything symbolic (g, box a<=0<=b, Delta>0)" % n,
                          assumptions=["|g_i| = 0 or >= 1e-14 (components below ZERO_THRESH are zeroed by design)", "real arithmetic (QF_NRA), sqrt exact"],
                          expect=['linear:inside-ball', 'linear:globally-optimal-to-1e-6'], nproc=(1 if n == 1 else None),
                          wall_budget=(240 if tier == 'quick' else 1500), replay=True))
    for n in ([1, 2] if tier == 'quick' else [1, 2, 3]):
        hs.append(Harness("trsbox_geometry[n=%d]" % n, 'dfverif.checks.c13', 'body_geometry', params=dict(n=n), cfg=nra(), functions=FUNCS,
                          bounds="n=%d, everything symbolic" % n,
                          assumptions=["trsbox_linear summarised by its contract proved in trsbox_linear[n]: returns a feasible minimiser"],
                          expect=['geometry:global-maximum-of-|c+g.s|'], nproc=1))
        hs.append(Harness("pball[n=%d]" % n, 'dfverif.checks.c13', 'body_pball', params=dict(n=n), cfg=nra(), functions=FUNCS,
                          bounds="n=%d" % n, assumptions=["r > 0", "real arithmetic"], expect=['pball:lands-in-ball'], nproc=1))
    for which in ('pgd', 'sfista', 'linear', 'geometry'):
        for n in ([1] if tier == 'quick' else [1, 2]):
            hs.append(Harness("cstruct[%s,n=%d]" % (which, n), 'dfverif.checks.c13', 'body_cstruct', params=dict(which=which, n=n),
                              cfg=core.Cfg(qtimeout_ms=q, uflin=True), functions=FUNCS,
                              bounds="n=%d, every loop of the solver cut to 2 iterations (the loop body is the same each time)" % n,
                              assumptions=["dykstra stubbed: arbitrary output; with C15 (result = last projector's output) and pball[n] this gives ||d|| <= Delta",
                                           "one user projector (identity stand-in; only its position in the list matters)"],
                              expect=[which + ':ball-projected-last-with-right-centre-and-radius'], nproc=1))
    for (n, pj, scl) in ([(1, False, False), (1, True, False), (1, False, True)] if tier == 'quick' else
                         [(1, False, False), (1, True, False), (1, False, True), (2, False, False), (2, True, False)]):
        hs.append(Harness("regularised-step[n=%d,projections=%d%s]" % (n, pj, ',scaling' if scl else ''), 'dfverif.checks.c13', 'body_trs_regularised',
                          params=dict(n=n, proj=pj, scaling=scl), cfg=nra(),
                          functions=FUNCS, bounds="n=%d, m=1, any model, any step returned by S-FISTA, %s" % (n, 'user projections' if pj else 'bounds only'),
                          assumptions=["ctrsbox_sfista stubbed: arbitrary step", "h(x) = lam*sum|x_i-c_i|"],
                          expect=['regularised-step:predicted-reduction-non-negative'], nproc=1))
    return hs


def run(tier, seed):
    return run_property(
        'C13', harnesses(tier, seed), tier, seed,
        explanation="QF_NRA symbolic execution of the real trsbox_linear/ball_step (feasibility + global optimality as an existential "
                    "competitor query), trsbox_geometry (choice logic over the proved contract), pball, the projector-list structure of "
                    "ctrsbox_pgd/sfista/linear/geometry (ball projected last, step = projection output - centre) and the zero-step rule of "
                    "Controller.trust_region_step with a regulariser.")
