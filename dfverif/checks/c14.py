"""
C14 - the initial interpolation set is feasible and well poised next to bounds; direction generators respect
their box and length.

(a) real Controller.initialise_coordinate_directions (bound branch) from the state solve_main builds (x0 inside the box,
    delta = rhobeg, gap >= 2*rhobeg): every evaluated point inside the box, between 0.01*rhobeg and 2*rhobeg from x0,
    per-coordinate steps non-zero and distinct by >= 0.01*rhobeg (=> affine independence; the condition-number bound
    follows on paper from these inequalities for the coordinate pattern).
(b) real random_directions_within_bounds / random_orthog_directions_within_bounds / get_scale with the normal draws as
    arbitrary reals and the QR factor of the random matrix as an arbitrary orthonormal matrix.
"""
from ..harness import Harness, run_property
from .. import core
from ..state import mk_params, mk_objfun, EvalLog


def body_coord(E, n, npt):
    np = E.np
    log = EvalLog()
    objfun = mk_objfun(E, 1, log)
    x0 = E.vec('x0_', n, lo=-10 ** 6, hi=10 ** 6)
    # a bound is either a finite number (|value| <= 1e6) or absent, which solve() stores as -1e20 / +1e20 (one-sided boxes)
    xl = E.vec('xl', n, lo=-10 ** 6, hi=10 ** 6)
    xu = E.vec('xu', n, lo=-10 ** 6, hi=10 ** 6)
    for i in range(n):
        xl[i] = E.ite(E.bool('has_lower%d' % i), xl[i], -E.const(10 ** 20) + 0 * xl[i])
        xu[i] = E.ite(E.bool('has_upper%d' % i), xu[i], E.const(10 ** 20) + 0 * xu[i])
    rhobeg = E.real('rhobeg', npy=False, hi=10 ** 6)
    E.assume(E.all([rhobeg > 0] + [xl[i] <= x0[i] for i in range(n)] + [x0[i] <= xu[i] for i in range(n)] +
                   [xu[i] - xl[i] >= 2 * rhobeg for i in range(n)]))
    maxfun = E.int('maxfun', npt, None)    # enough budget for the whole initialisation
    params = mk_params(E, n, npt, maxfun)
    r0 = E.vec('r0_', 1)
    C = E.get('Controller')(objfun, (), x0.copy(), r0, 1, xl, xu, [], npt, rhobeg, rhobeg / 1000, 1, 1, maxfun, params, None, False)
    # small-objective exits are C10's subject: keep values above the threshold so that the whole set is built
    thr = C.model.min_objective_value()
    ndirs = npt - 1
    exit_info = C.initialise_coordinate_directions(1, ndirs, params)
    pts = [c['x'] for c in log.calls]
    if exit_info is not None:
        E.reach('coord:early-exit')
    else:
        E.prove(len(pts) == ndirs, 'coord:npt-1-evaluations')
    delta = rhobeg
    absv = lambda v: E.ite(v >= 0, v, -v)
    for k, x in enumerate(pts):
        E.prove(E.all([xl[i] <= x[i] for i in range(n)] + [x[i] <= xu[i] for i in range(n)]), 'coord:point-inside-bounds')
        diff = x - x0
        # coordinate pattern: distances are decided per coordinate (linear); for a single moved coordinate |d_j| is the distance
        moved = [absv(diff[i]) for i in range(n)]
        if k < 2 * n:
            j = k % n
            E.prove(E.all([moved[j] >= delta / 100, moved[j] <= 2 * delta] + [diff[i] == 0 for i in range(n) if i != j]),
                    'coord:between-0.01*rhobeg-and-2*rhobeg-from-x0-along-one-coordinate')
        else:
            E.prove(E.all([moved[i] <= 2 * delta for i in range(n)] + [E.any([moved[i] >= delta / 100 for i in range(n)])]),
                    'coord:offdiagonal-point-within-2*rhobeg-per-coordinate')
    if exit_info is None:
        M = C.model
        E.prove(M.npt() == npt, 'coord:model-complete')
        for k in range(1, npt):
            xk = M.xbase + M.points[k, :]
            E.prove(E.any([E.all([E.eq(xk[i], x[i]) for i in range(n)]) for x in pts]), 'coord:stored-point-is-an-evaluated-point')
        # first n points: one coordinate each; points n+1..2n: the same coordinate, a different non-zero step
        for k in range(min(ndirs, n)):
            d = pts[k] - x0
            E.prove(E.all([d[i] == 0 for i in range(n) if i != k]), 'coord:first-n-points-move-one-coordinate')
        for k in range(n, min(ndirs, 2 * n)):
            j = k - n
            d1 = pts[j] - x0
            d2 = pts[k] - x0
            E.prove(E.all([d2[i] == 0 for i in range(n) if i != j]), 'coord:second-n-points-move-the-same-coordinate')
            gap = d1[j] - d2[j]
            E.prove(E.any([gap >= delta / 100, gap <= -delta / 100]), 'coord:two-steps-per-coordinate-distinct-by-0.01*rhobeg')


def _rng_fresh(E, events):
    def rng(kind, size, **kw):
        events.append(kind)
        if kind == 'normal':
            k = len([e for e in events if e == 'normal'])
            if size is None:
                return E.real('nrm%d' % k)
            if len(size) == 1:
                return E.vec('nrm%d_' % k, size[0])
            return E.mat('nrm%d_' % k, size[0], size[1])
        raise RuntimeError("unexpected rng kind " + kind)
    return rng


def _orthonormal_hook(E):
    def la(name, args, kw):
        if name == 'np.qr':
            a = args[0]
            r, c = a.shape
            Q = E.mat('Q', r, c)
            np = E.np
            for i in range(c):
                for j in range(i, c):
                    E.assume(E.eq(np.dot(Q[:, i], Q[:, j]), 1 if i == j else 0))
            return Q, E.mat('Rq', c, c)
        return NotImplemented
    return la


def body_random(E, gen, n, num_pts):
    np = E.np
    events = []
    E.hooks(rng=_rng_fresh(E, events), la=_orthonormal_hook(E))
    lower = E.vec('lo', n)
    upper = E.vec('up', n)
    delta = E.real('delta', npy=False)
    E.assume(E.all([delta > 0] + [lower[i] <= 0 for i in range(n)] + [upper[i] >= 0 for i in range(n)] +
                   [upper[i] - lower[i] > 0 for i in range(n)]))
    fn = E.get('random_directions_within_bounds' if gen == 'plain' else 'random_orthog_directions_within_bounds')
    try:
        D = fn(num_pts, delta, lower, upper)
    except ZeroDivisionError:
        E.reach('random:zero-draw')      # an all-zero normal draw (probability zero)
        return
    E.prove(D.shape == (num_pts, n), 'random[%s]:requested-number-of-directions' % gen)
    nactive = sum(1 for i in range(n) if E.is_true(E.any([lower[i] == 0, upper[i] == 0])))
    ninactive = n - nactive
    for k in range(D.shape[0]):
        row = D[k, :]
        if E.is_true(E.any([E.isnan(v) for v in E.flat(row)])):
            E.reach('random:zero-draw')
            continue
        E.prove(E.all([lower[i] <= row[i] for i in range(n)] + [row[i] <= upper[i] for i in range(n)]), 'random[%s]:direction-inside-bounds' % gen)
        site = 'extra-active-direction' if (gen == 'orthog' and n + ninactive <= k < 2 * n) else 'direction'
        E.prove(np.dot(row, row) <= delta * delta * (1 + E.const('1e-12')), 'random[%s]:%s-no-longer-than-delta' % (gen, site))


FUNCS = ['controller.Controller.initialise_coordinate_directions', 'controller.Controller.evaluate_objective', 'model.Model.change_point',
         'model.Model.as_absolute_coordinates', 'util.random_directions_within_bounds', 'util.random_orthog_directions_within_bounds',
         'util.get_scale']


def harnesses(tier, seed):
    hs = []
    q = 20000 if tier == 'quick' else 90000
    combos = [(1, 2), (1, 3), (2, 3), (2, 5)] if tier == 'quick' else [(1, 2), (1, 3), (2, 3), (2, 4), (2, 5), (2, 6), (3, 4), (3, 7)]
    for (n, npt) in combos:
        hs.append(Harness("coordinate-init[n=%d,npt=%d]" % (n, npt), 'dfverif.checks.c14', 'body_coord', params=dict(n=n, npt=npt),
                          cfg=core.Cfg(qtimeout_ms=q, uflin=True), functions=FUNCS,
                          bounds="n=%d, npt=%d, any x0 in the box, any box with gap >= 2*rhobeg, any residual values (they drive the point swap)" % (n, npt),
                          assumptions=["budget covers the initialisation (maxfun >= npt); one sample per point", "real arithmetic; sumsq abstracted (UF) - only comparisons of objective values matter here",
                                       "condition number < 1e4: consequence on paper of the proved step inequalities for the coordinate pattern, not a solver result"],
                          expect=['coord:point-inside-bounds', 'coord:between-0.01*rhobeg-and-2*rhobeg-from-x0-along-one-coordinate'],
                          nproc=None, wall_budget=(200 if tier == 'quick' else 900)))
    rc = [('plain', 1, 2), ('plain', 2, 1), ('orthog', 1, 2), ('orthog', 2, 2), ('orthog', 2, 4)] if tier == 'quick' else \
        [('plain', 1, 2), ('plain', 2, 1), ('plain', 2, 2), ('orthog', 1, 2), ('orthog', 1, 3), ('orthog', 2, 2), ('orthog', 2, 4), ('orthog', 2, 5)]
    for (gen, n, k) in rc:
        hs.append(Harness("random[%s,n=%d,num_pts=%d]" % (gen, n, k), 'dfverif.checks.c14', 'body_random', params=dict(gen=gen, n=n, num_pts=k),
                          cfg=core.Cfg(fork_queries=True, qtimeout_ms=q, portfolio=(tier != 'quick'), portfolio_logic='QF_NRA'), functions=FUNCS,
                          bounds="n=%d, %d directions requested, every active-set pattern (bounds equal to 0 or not), delta > 0" % (n, k),
                          assumptions=["np.random.normal -> arbitrary reals; QR factor of the random matrix -> arbitrary matrix with orthonormal columns",
                                       "real arithmetic (QF_NRA)"],
                          expect=['random[%s]:direction-inside-bounds' % gen], nproc=None, wall_budget=(200 if tier == 'quick' else 900)))
    return hs


def run(tier, seed):
    return run_property(
        'C14', harnesses(tier, seed), tier, seed,
        explanation="Symbolic execution of the real initialise_coordinate_directions (z3 LRA+UF) and of the random direction generators "
                    "(QF_NRA, random draws and the QR factor as arbitrary values with their defining property).")
