"""
C15 - Dykstra's projection: stopping rule, sweep count, fixed point, exact box.

The real `dykstra` loop is executed with projectors that return arbitrary vectors z (only
"z lies in C_i" is ever used about a projector output), symbolic max_iter and tol.
"""
from ..harness import Harness, run_property
from .. import core, sym


def body_stoprule(E, n, p, max_iter_hi, inplace=False):
    """whenever the loop stops by its tolerance rule, the result is within sqrt(p*tol) of every set"""
    dykstra = E.get('dykstra')
    np = E.np
    x0 = E.vec('x0_', n)
    tol = E.real('tol', npy=False, lo=0)
    max_iter = E.int('max_iter', 0, max_iter_hi)
    calls = []      # (set index, output) in call order

    def mk(i):
        def P(w):
            z = E.vec('z%d_' % i, n)
            calls.append((i, z, w.copy()))
            if inplace:
                # a user projector may overwrite the array it is given and return that very array
                w[:] = z
                return w
            return z
        return P
    P = [mk(i) for i in range(p)]
    x = dykstra(P, x0, max_iter=max_iter, tol=tol)
    sweeps, rem = divmod(len(calls), p)
    E.prove(rem == 0, 'whole-sweeps')
    # the textbook iteration (Boyle-Dykstra): the i-th projector is applied to (current point - its own correction),
    # the correction becomes (output - argument); hence x - sum_i y_i == x0 throughout
    ys = [x0 * 0 for _ in range(p)]
    xc = x0
    for t, (i, z, w) in enumerate(calls):
        E.prove(i == t % p, 'projectors-applied-cyclically')
        expect = xc - ys[i]
        E.prove(E.all([E.eq(w[j], expect[j]) for j in range(n)]), 'projector-argument-is-point-minus-own-correction')
        ys[i] = z - expect
        xc = z
    E.prove(sweeps <= max_iter, 'at-most-max_iter-sweeps')
    if sweeps == 0:
        E.prove(E.all([E.eq(x[j], x0[j]) for j in range(n)]), 'no-sweep-returns-x0')
        E.prove(max_iter == 0, 'no-sweep-only-if-max_iter-0')   # cI starts at +inf: tol cannot stop the first sweep
        return
    last = [(c[0], c[1]) for c in calls[-p:]]
    E.prove(E.all([E.eq(x[j], last[-1][1][j]) for j in range(n)]), 'result-is-last-projector-output')
    # did it stop by the tolerance rule?  (the loop condition is `n < max_iter and cI >= tol`)
    # recompute cI of the last sweep from its definition: sum_i ||prev_y - y_i'||^2 = sum_i ||x_{i-1} - x_i||^2
    prev_out = calls[-p - 1][1] if sweeps >= 2 else x0
    cI = 0
    xs = [prev_out] + [z for (_, z) in last]
    for i in range(p):
        d = xs[i + 1] - xs[i]
        cI = cI + np.dot(d, d)
    stopped_by_tol = cI < tol
    if sweeps < max_iter:
        E.prove(stopped_by_tol, 'early-stop-only-by-tolerance')
    for i in range(p):
        d = x - last[i][1]
        dist2 = np.dot(d, d)
        E.prove(E.implies(stopped_by_tol, dist2 < p * tol), 'within-sqrt(p*tol)-of-set-%d' % i)
        E.prove(dist2 <= (p - 1 - i) * cI, 'distance-bounded-by-(p-1-i)*cI')


def body_fixedpoint(E, n, kinds):
    """a point already in all sets is returned unchanged by the real projectors and the loop stops after one sweep"""
    dykstra = E.get('dykstra')
    pbox, pball = E.get('pbox'), E.get('pball')
    np = E.np
    x0 = E.vec('x0_', n)
    tol = E.real('tol', npy=False)
    E.assume(tol > 0)
    max_iter = E.int('max_iter', 1, 3)
    count = [0]
    P = []
    for t, kind in enumerate(kinds):
        if kind == 'box':
            l = E.vec('l%d_' % t, n)
            u = E.vec('u%d_' % t, n)
            E.assume(E.all([l[j] <= x0[j] for j in range(n)] + [x0[j] <= u[j] for j in range(n)]))
            f = (lambda l, u: lambda w: pbox(w, l, u))(l, u)
        elif kind == 'ball':
            c = E.vec('c%d_' % t, n)
            r = E.real('r%d' % t, npy=False)
            E.assume(r > 0)
            d = x0 - c
            E.assume(np.dot(d, d) <= r * r)
            f = (lambda c, r: lambda w: pball(w, c, r))(c, r)
        else:   # half-space a.x <= b, exact projector as a formula
            a = E.vec('a%d_' % t, n)
            b = E.real('b%d' % t, npy=False)
            E.assume(np.dot(a, a) == 1)
            E.assume(np.dot(a, x0) <= b)

            def f(w, a=a, b=b):
                viol = np.dot(a, w) - b
                return w - E.ite(viol > 0, viol, 0 * viol) * a

        def counted(w, f=f):
            count[0] += 1
            return f(w)
        P.append(counted)
    x = dykstra(P, x0, max_iter=max_iter, tol=tol)
    E.prove(E.all([E.eq(x[j], x0[j]) for j in range(n)]), 'feasible-point-unchanged')
    E.prove(count[0] == len(kinds), 'stops-after-one-sweep')


def body_box_exact(E, n):
    """binary64: the box projector's output lies in the box exactly (l <= u, no NaN)"""
    pbox = E.get('pbox')
    w = E.vec('w', n, fp=True)
    l = E.vec('l', n, fp=True)
    u = E.vec('u', n, fp=True)
    if E.symbolic:
        import z3
        for v in list(w.flat()) + list(l.flat()) + list(u.flat()):
            E.assume(sym.wrapb(z3.Not(z3.fpIsNaN(v.t))))
    E.assume(E.all([l[j] <= u[j] for j in range(n)]))
    out = pbox(w, l, u)
    E.prove(E.all([l[j] <= out[j] for j in range(n)] + [out[j] <= u[j] for j in range(n)]), 'pbox-output-exactly-in-box')
    inside = E.all([l[j] <= w[j] for j in range(n)] + [w[j] <= u[j] for j in range(n)])
    E.prove(E.implies(inside, E.all([out[j] == w[j] for j in range(n)])), 'pbox-identity-inside')


FUNCS = ['util.dykstra', 'util.pbox', 'util.pball']


def harnesses(tier, seed):
    hs = []
    grid = [(1, 2, 3), (2, 2, 3), (2, 3, 2)] if tier == 'quick' else [(1, 2, 3), (2, 2, 3), (2, 3, 3), (3, 3, 2), (3, 4, 1), (4, 2, 2), (6, 2, 1)]
    for (n, p, mi) in grid:
        hs.append(Harness("stoprule[n=%d,p=%d,max_iter<=%d]" % (n, p, mi), 'dfverif.checks.c15', 'body_stoprule',
                          params=dict(n=n, p=p, max_iter_hi=mi),
                          cfg=core.Cfg(fork_queries=True, qtimeout_ms=30000 if tier == 'quick' else 90000),
                          functions=FUNCS, bounds="dimension %d, %d sets, max_iter in [0,%d], tol >= 0 symbolic, projector outputs arbitrary" % (n, p, mi),
                          assumptions=["projector outputs are arbitrary vectors (a projector onto C_i returns a point of C_i: the distance to z_i bounds the distance to C_i)",
                                       "real arithmetic (rounding not modelled)"],
                          expect=['within-sqrt(p*tol)-of-set-0', 'at-most-max_iter-sweeps', 'projector-argument-is-point-minus-own-correction'], nproc=1))
    for (n, p, mi) in ([(2, 2, 2)] if tier == 'quick' else [(2, 2, 2), (2, 3, 2), (3, 2, 2)]):
        hs.append(Harness("stoprule[n=%d,p=%d,max_iter<=%d,in-place-projectors]" % (n, p, mi), 'dfverif.checks.c15', 'body_stoprule',
                          params=dict(n=n, p=p, max_iter_hi=mi, inplace=True),
                          cfg=core.Cfg(fork_queries=True, qtimeout_ms=30000 if tier == 'quick' else 90000),
                          functions=FUNCS, bounds="dimension %d, %d sets, max_iter in [0,%d]; every projector overwrites its argument and returns it" % (n, p, mi),
                          assumptions=["projector outputs are arbitrary vectors, written into the argument array (the user guide only asks for a function returning the projected point)",
                                       "real arithmetic (rounding not modelled)"],
                          expect=['within-sqrt(p*tol)-of-set-0', 'projector-argument-is-point-minus-own-correction'], nproc=1))
    fps = [(1, ('box', 'ball')), (2, ('ball', 'box')), (2, ('half', 'box'))] if tier == 'quick' else \
        [(1, ('box', 'ball')), (2, ('ball', 'box')), (2, ('half', 'box')), (2, ('ball', 'half', 'box')), (3, ('half', 'box')),
         (3, ('box', 'box')), (2, ('half', 'half', 'box'))]      # (n=3 with a ball, 4 sets with two balls: `unknown` after 30-40 min, measured)
    for (n, kinds) in fps:
        hs.append(Harness("fixedpoint[n=%d,%s]" % (n, '+'.join(kinds)), 'dfverif.checks.c15', 'body_fixedpoint',
                          params=dict(n=n, kinds=list(kinds)),
                          cfg=core.Cfg(fork_queries=True, qtimeout_ms=30000 if tier == 'quick' else 90000),
                          functions=FUNCS, bounds="dimension %d, sets %s, max_iter in [1,3], tol > 0" % (n, kinds),
                          assumptions=["real pbox/pball executed; half-space projector given as its closed formula", "real arithmetic"],
                          expect=['feasible-point-unchanged'], nproc=1))
    for n in ([1, 2] if tier == 'quick' else [1, 2, 3]):
        hs.append(Harness("box-exact-binary64[n=%d]" % n, 'dfverif.checks.c15', 'body_box_exact', params=dict(n=n),
                          cfg=core.Cfg(fork_queries=True, qtimeout_ms=60000, logic='QF_FP'), functions=['util.pbox'],
                          bounds="IEEE binary64, all finite/infinite non-NaN inputs with l <= u, per coordinate (pbox is elementwise)",
                          assumptions=["no NaN among w, l, u"], expect=['pbox-output-exactly-in-box'], nproc=1))
    # the stop rule bounds the distance to a set by the distance to the projector's OUTPUT: the ball projector shipped with dfols
    # must itself land in its ball (and the box projector in its box, above) - C13's pball harness
    from . import c13
    for h in c13.harnesses(tier, seed):
        if h.name.startswith('pball['):
            h.home = 'C15'
            hs.append(h)
    return hs


def run(tier, seed):
    return run_property(
        'C15', harnesses(tier, seed), tier, seed,
        explanation="Symbolic execution (z3: QF_NRA for the loop, QF_FP binary64 for the box projector) of the real dykstra/pbox/"
                    "pball. Decided: sweeps <= max_iter, whole sweeps, early stop only by the tolerance rule, result = last "
                    "projector's output, stop by tolerance => within sqrt(p*tol) of every set, feasible points are fixed points, "
                    "box output exactly in the box. NOT decided: 'within 1e-3 of the true projection' (needs convergence of the iteration).",
        extra_assumptions=["max_iter >= 1 for the 'exactly in the last box' clause (with max_iter = 0 no sweep is performed and x0 is returned; shown by obligation no-sweep-returns-x0)"])
