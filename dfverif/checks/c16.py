"""
C16 - interpolation models reproduce their data and survive base shifts (PARTIAL: rounding proportional to conditioning
is not decided).

(a) semi-symbolic fit: real Model.interpolate_mini_models_svd -> factorise_geom_system -> solve_geom_system on a CONCRETE
    point geometry (seeded family: spreads over decades, base far from the origin) with SYMBOLIC residual data.  QR of the
    concrete matrix is delegated to LAPACK; the triangular solve with a symbolic right-hand side is exact back-substitution
    on the concrete factor.  Everything downstream is linear in the symbols, so z3 decides for ALL data:
    interpolation (npt = n+1 and growing npt < n+1), normal equations (npt > n+1), and J = A for linear data (C11).
(b) fully symbolic (QF_NRA): shift_base changes neither the model value at any absolute point (C17 harness) nor the
    assembled gradient / Hessian of build_full_model.
"""
import random
from fractions import Fraction

from ..harness import Harness, run_property
from .. import core
from ..state import mk_model


def _geometry(n, npt, spread, base, seed):
    rnd = random.Random(seed * 7919 + n * 131 + npt * 17 + int(spread * 1e6) % 1000)
    pts = [[0.0] * n]
    for k in range(1, npt):
        v = [0.0] * n
        j = (k - 1) % n
        sgn = 1.0 if (k - 1) < n else -1.0
        v[j] = sgn * spread
        v = [vi + spread * 0.2 * (rnd.random() - 0.5) for vi in v]
        pts.append(v)
    xb = [base + 0.37 * i for i in range(n)]
    return xb, pts


def _la_exact_triangular(E):
    """scipy.linalg.solve_triangular(R, B[, trans='T']) for a concrete R and symbolic B: exact substitution"""
    from ..arr import SArr

    def la(name, args, kw):
        if name != 'solve_triangular':
            return NotImplemented
        R, B = args
        return NotImplemented if not E.symbolic else None
    return la


def _install_triangular(E):
    if not E.symbolic:
        return
    from .. import shim
    from ..arr import SArr

    def solve_triangular(a, b, trans=0, **kw):
        a = shim.arr.asarr(a)
        b = shim.arr.asarr(b)
        if not shim.all_concrete(a):
            raise core.PathAbort('unsupported', 'triangular solve with a symbolic factor')
        k = a.shape[0]
        A = [[a[i, j] for j in range(k)] for i in range(k)]
        if trans in ('T', 1):
            A = [[A[j][i] for j in range(k)] for i in range(k)]     # lower triangular now
            lower = True
        else:
            lower = False
        for i in range(k):
            if A[i][i] == 0:
                raise shim.LA.LinAlgError("singular matrix")
        vec = (b.ndim == 1)
        cols = 1 if vec else b.shape[1]
        X = [[None] * cols for _ in range(k)]
        order = range(k) if lower else range(k - 1, -1, -1)
        for c in range(cols):
            for i in order:
                s_ = b[i] if vec else b[i, c]
                rng_ = range(i) if lower else range(i + 1, k)
                for j in rng_:
                    s_ = s_ - A[i][j] * X[j][c]
                X[i][c] = s_ / A[i][i]
        flat = [X[i][c] for i in range(k) for c in range(cols)]
        return SArr.from_flat(flat, (k,) if vec else (k, cols), 'f')
    shim.LA.solve_triangular = staticmethod(solve_triangular)
    E.ns['LA'] = shim.LA


def body_fit(E, n, m, npt, spread, base, seed, linear_data):
    np = E.np
    E.float_sqrt(True)
    _install_triangular(E)
    xb_c, pts_c = _geometry(n, npt, spread, base, seed)
    Model = E.get('Model')
    xb = E.arr(xb_c, 'f')
    big = 1e20
    num_pts = max(npt, n + 1)
    M = Model(num_pts, xb, E.arr([0.0] * m, 'f'), E.arr([-big] * n, 'f'), E.arr([big] * n, 'f'), [], 1, do_logging=False)
    M.npt_so_far = npt
    A = b = None
    if linear_data:
        A = E.mat('A', m, n)
        b = E.vec('b', m)
    data = []
    for k in range(npt):
        M.points[k, :] = E.arr(pts_c[k], 'f')
        if linear_data:
            row = np.dot(A, M.xbase + M.points[k, :]) - b
        else:
            row = E.vec('y%d_' % k, m)
        M.fval_v[k, :] = row
        data.append(row)
        M.eval_num[k] = 10 + k
    M.kopt = (npt - 1) if (seed + n + npt) % 2 == 0 else 0      # the fit is centred at the incumbent: exercise a non-trivial centre
    try:
        ok = M.interpolate_mini_models_svd(make_full_rank=False)[0]
    except Exception as e:    # noqa
        E.fail('fit:raises-' + type(e).__name__, detail=str(e)[:200])
        return
    E.prove(bool(ok), 'fit:well-poised-set-is-fitted')
    if not ok:
        return
    absv = lambda v: E.ite(v >= 0, v, -v)
    if linear_data:
        S = sum(absv(A[i, j]) for i in range(m) for j in range(n)) * (abs(base) + 1) + sum(absv(b[i]) for i in range(m))
    else:
        S = sum(absv(data[k][j]) for k in range(npt) for j in range(m))
    eps = E.const('1e-7')
    res = []
    for k in range(npt):
        pred = M.model_const + np.dot(M.model_jac, M.points[k, :])
        res.append(pred - data[k])
    if npt <= n + 1:
        for k in range(npt):
            E.prove(E.all([absv(res[k][j]) <= eps * S for j in range(m)]), 'fit:model-reproduces-the-data-at-every-point[npt%sn+1]' % ('=' if npt == n + 1 else '<'))
        if npt < n + 1:
            # growing phase: the fit is the minimal-norm one - the Jacobian has no component outside the span of the directions
            # (which is what lets the full-rank completion add the missing singular directions without touching the data)
            import numpy as _rnp
            kc = int(M.kopt)
            Dm = _rnp.array([[pts_c[k][i] - pts_c[kc][i] for i in range(n)] for k in range(npt) if k != kc])
            _u, _s, _vt = _rnp.linalg.svd(Dm, full_matrices=True)
            for v in _vt[npt - 1:, :]:
                vv = E.arr([float(x) for x in v], 'f')
                Jv = np.dot(M.model_jac, vv)
                E.prove(E.all([absv(Jv[j]) <= eps * S / spread for j in range(m)]), 'fit:growing-fit-has-no-component-outside-the-span-of-its-directions')
    else:
        for j in range(m):
            E.prove(absv(sum(res[k][j] for k in range(npt))) <= eps * S * npt, 'fit:regression-residual-orthogonal-to-constant-column')
            for i in range(n):
                E.prove(absv(sum(res[k][j] * Fraction(pts_c[k][i]) for k in range(npt)) if E.symbolic else
                             sum(res[k][j] * pts_c[k][i] for k in range(npt))) <= eps * S * npt * spread,
                        'fit:regression-residual-orthogonal-to-coordinate-columns')
    # the same linear system solved WITHOUT the cached factorisation (the documented fallback, e.g. lagrange_gradient(k,
    # factorise_first=False) after a mutation) gives the same solution for every right-hand side
    rh = E.vec('rh', npt)
    if E.symbolic:
        import numpy as _rnp
        from .. import shim as _shim
        from ..arr import SArr as _SArr

        def la(name, args, kw):
            if name != 'lstsq' or not _shim.all_concrete(args[0]):
                return NotImplemented
            P = _rnp.linalg.pinv(_shim.to_numpy(args[0]))
            B = args[1]
            Pm = _SArr.from_nested([[float(v) for v in row] for row in P], 'f')
            return (np.dot(Pm, B), 0, 0, 0)
        E.hooks(la=la)
    x_fact = M.solve_geom_system(rh)
    M.factorisation_current = False
    try:
        x_plain = M.solve_geom_system(rh)
    except Exception as e:    # noqa
        E.fail('fit:solve-without-cached-factorisation-raises-' + type(e).__name__, detail=str(e)[:200])
        x_plain = None
    if x_plain is not None:
        Sr = sum(absv(rh[k]) for k in range(npt))
        E.prove(E.all([absv(p_ - q_) <= E.const('1e-6') * Sr * max(1.0, 1.0 / spread) for p_, q_ in zip(E.flat(x_fact), E.flat(x_plain))]),
                'fit:solve-without-cached-factorisation-agrees-with-the-factorised-solve')
    E.prove(E.all([p == q for p, q in zip(E.flat(M.model_jac_eval_nums), E.flat(M.eval_num[:npt] if npt == num_pts else M.eval_num))]),
            'C11:fit:eval-number-snapshot-is-the-slots-eval-numbers')
    snap = [v for v in E.flat(M.model_jac_eval_nums)]
    M.eval_num[0] = 999          # a later point replacement must not change the recorded numbers
    E.prove(E.all([p == q for p, q in zip(E.flat(M.model_jac_eval_nums), snap)]), 'C11:fit:eval-number-snapshot-is-a-copy-not-an-alias')
    if linear_data and npt >= n + 1:
        E.prove(E.all([absv(M.model_jac[i, j] - A[i, j]) <= eps * S / spread for i in range(m) for j in range(n)]), 'C11:fit:jacobian-of-linear-residuals-is-A')


def _find_fullrank_completion(fn):
    """from `self.model_jac = dg[1:, :].T` (the fitted Jacobian is stored) up to the statement before `interp_error = ...`:
    constant term, evaluation-number snapshot and the `if make_full_rank:` completion block that calls the SVD"""
    import ast
    from .. import loader
    start = [i for i, st in enumerate(fn.body) if isinstance(st, ast.Assign) and ast.unparse(st.targets[0]) == 'self.model_jac' and 'dg' in ast.unparse(st.value)]
    end = [i for i, st in enumerate(fn.body) if isinstance(st, ast.Assign) and ast.unparse(st.targets[0]) == 'interp_error']
    comp = [i for i, st in enumerate(fn.body) if isinstance(st, ast.If) and ast.unparse(st.test) == 'make_full_rank' and 'svd' in ast.unparse(st)]
    if len(start) != 1 or len(end) != 1 or len(comp) != 1 or not (start[0] < comp[0] < end[0]):
        raise loader.AnchorError("interpolate_mini_models_svd: cannot locate the block [store fitted Jacobian .. full-rank completion]")
    return fn.body[start[0]:end[0]]


def body_fullrank(E, n, m, ndirs):
    """growing phase with make_full_rank=True.  The completion block (sliced from interpolate_mini_models_svd) runs on ANY fitted
    Jacobian J = U diag(s) Vt (U, Vt orthonormal, s sorted; the factors are the symbolic inputs, the SVD call returns them):
    on the singular directions it has data for (i < r = number of directions) the completed Jacobian acts exactly as J did, whenever
    the smallest known singular value is not below the conditioning floor.  Together with 'the growing fit has no component outside
    the span of its directions' (fit harnesses) this is 'the data are still interpolated'."""
    import ast
    from .. import loader
    np = E.np
    kk = min(n, m)
    sv = E.vec('sv', kk, lo=0, hi=10 ** 6)
    Vt = E.mat('Vt', kk, n)
    if m == 2 and kk == 2:
        # every 2x2 orthogonal matrix is a rotation or a reflection: two symbols and one constraint instead of four and three
        c_, s_ = E.real('Uc', lo=-1, hi=1), E.real('Us', lo=-1, hi=1)
        E.assume(E.eq(c_ * c_ + s_ * s_, 1, tol=1e-6))
        refl = E.real('Urefl', lo=-1, hi=1)
        E.assume(E.any([refl == 1, refl == -1]))
        U = E.arr([[c_, -s_ * refl], [s_, c_ * refl]], 'f') if E.symbolic else np.array([[c_, -s_ * refl], [s_, c_ * refl]], dtype=float)
    else:
        U = E.mat('U', m, kk)
    for i in range(kk):
        for j in range(i, kk):
            if not (m == 2 and kk == 2):
                E.assume(E.eq(np.dot(U[:, i], U[:, j]), 1 if i == j else 0, tol=1e-6))
            E.assume(E.eq(np.dot(Vt[i, :], Vt[j, :]), 1 if i == j else 0, tol=1e-6))
    for i in range(kk - 1):
        E.assume(sv[i] >= sv[i + 1])
    r = min(ndirs, n, m)
    J = sum(np.outer(U[:, i], Vt[i, :]) * sv[i] for i in range(kk)) if not E.symbolic else None
    if E.symbolic:
        from ..arr import SArr
        J = SArr.from_nested([[sum(U[a, i] * sv[i] * Vt[i, b] for i in range(kk)) for b in range(n)] for a in range(m)], 'f')

        def la(name, args, kw):
            if name == 'svd':
                return U, sv, Vt
            if name == 'diagsvd':
                s_ = args[0]
                return SArr.from_nested([[s_[i] if i == j else 0.0 for j in range(kk)] for i in range(kk)], 'f')
            return NotImplemented
        E.hooks(la=la)
    Model = E.get('Model')
    big = 1e20
    M = Model(n + 1, E.arr([0.0] * n, 'f'), E.arr([0.0] * m, 'f'), E.arr([-big] * n, 'f'), E.arr([big] * n, 'f'), [], 1, do_logging=False)
    M.npt_so_far = ndirs + 1
    # the solution of the interpolation system: value of each residual model at the incumbent (first row) and its gradient (J)
    cval = E.vec('c', m, lo=-10 ** 6, hi=10 ** 6)
    xopt = E.vec('xo', n, lo=-100, hi=100)       # the incumbent relative to the base point: ANY vector (the base need not be a point of the set)
    if E.symbolic:
        dg = SArr.from_nested([[cval[a] for a in range(m)]] + [[J[a, b] for a in range(m)] for b in range(n)], 'f')
    else:
        dg = np.vstack([cval.reshape((1, m)), J.T])
    fn = loader.find_def('model', 'Model.interpolate_mini_models_svd')
    names = [a.arg for a in fn.args.args]
    defaults = dict(zip(names[-len(fn.args.defaults):], [ast.literal_eval(d) for d in fn.args.defaults]))
    env = dict(self=M, make_full_rank=True, min_sing_val=E.const(defaults['min_sing_val']), sing_val_frac=E.const(defaults['sing_val_frac']),
               max_jac_cond=E.const(defaults['max_jac_cond']), dg=dg, xopt=xopt, verbose=False, get_chg_J=False, throw_error_on_nans=False,
               norm_J_error=E.const(0), linalg_resid=E.const(0))
    blk = E.make_step('model', 'Model.interpolate_mini_models_svd', _find_fullrank_completion, '__fullrank', False)
    try:
        blk(env)
    except loader._Return:
        E.reach('fullrank:fit-refused')
        return
    J2 = M.model_jac
    premise = E.all([sv[r - 1] * 10 ** 8 >= sv[0] * 2, sv[r - 1] >= E.const('2e-6')])
    for i in range(r):
        a1 = np.dot(J2, Vt[i, :])
        a0 = sv[i] * U[:, i]
        E.prove(E.implies(premise, E.all([E.eq(a1[j], a0[j], tol=1e-5) for j in range(m)])),
                'fullrank:completion-leaves-the-fitted-directions-alone')
    # the first row of the solution is the fitted value at the incumbent: the stored model must still take it there
    at_opt = M.model_const + np.dot(J2, xopt)
    E.prove(E.implies(premise, E.all([E.eq(at_opt[j], cval[j], tol=1e-4) for j in range(m)])),
            'fullrank:completed-model-keeps-the-fitted-value-at-the-incumbent')
    for i in range(r, kk):
        a1 = np.dot(J2, Vt[i, :])
        E.prove(np.dot(a1, a1) > 0, 'fullrank:completion-gives-unknown-directions-a-positive-singular-value')


def body_shift(E, n, m):
    np = E.np
    M, ghost = mk_model(E, n, m, n + 1, n + 1, with_h=False, xr=False, with_save=False)
    g0, H0 = M.build_full_model()
    s = E.vec('s', n)
    M.shift_base(s)
    g1, H1 = M.build_full_model()
    E.prove(E.all([E.eq(g0[i], g1[i]) for i in range(n)]), 'shift:gradient-of-full-model-unchanged')
    E.prove(E.all([E.eq(H0[i, j], H1[i, j]) for i in range(n) for j in range(n)]), 'shift:hessian-of-full-model-unchanged')


def body_shift_fp(E):
    """binary64: a base shift moves every stored offset by ONE rounded subtraction (points - shift); in particular the relative
    geometry is perturbed by at most half an ulp of the offsets, not by an ulp of the (possibly far away) base point"""
    from .. import sym
    Model = E.get('Model')
    x0 = E.vec('x0_', 1, fp=True)
    p = E.vec('p', 1, fp=True)
    s = E.vec('s', 1, fp=True)
    if E.symbolic:
        import z3
        for a in (x0, p, s):
            for v in a.flat():
                E.assume(sym.wrapb(z3.Not(z3.Or(z3.fpIsNaN(v.t), z3.fpIsInf(v.t)))), check=False)
    E.assume(E.all([x0[0] >= -10 ** 9, x0[0] <= 10 ** 9, p[0] >= -1, p[0] <= 1, s[0] >= -1, s[0] <= 1]), check=False)
    big = 1e20
    M = Model(2, x0, E.arr([0.5], 'f'), E.arr([-big], 'f'), E.arr([big], 'f'), [], 1, do_logging=False)
    M.points[1, :] = p
    M.npt_so_far = 2
    M.shift_base(s)
    expect = p[0] - s[0]
    E.prove(M.points[1, 0] == expect, 'shift:offsets-move-by-one-rounded-subtraction')
    E.prove(M.xbase[0] == x0[0] + s[0], 'shift:base-moves-by-the-shift')


FUNCS = ['model.Model.interpolation_matrix', 'model.Model.factorise_geom_system', 'model.Model.solve_geom_system',
         'model.Model.interpolate_mini_models_svd', 'model.Model.build_full_model', 'model.Model.shift_base', 'model.Model.xpt_directions',
         'model.Model.distances_to_xopt']


def fit_harnesses(tier, seed, pid):
    hs = []
    if tier == 'quick':
        grid = [(1, 1, 2, 1.0, 0.0), (2, 2, 3, 0.01, 100.0), (2, 1, 5, 1.0, 10.0), (2, 1, 2, 0.1, 1.0)]
    else:
        grid = []
        for n in (1, 2, 3):
            for npt in sorted(set([2, n, n + 1, n + 2, 2 * n + 1])):
                if npt < 2:
                    continue
                for (spread, base) in ((1.0, 0.0), (0.01, 100.0), (1e-4, 1000.0), (10.0, -50.0)):
                    grid.append((n, 2 if n < 3 else 1, npt, spread, base))
    for (n, m, npt, spread, base) in grid:
        for lin in ((False, True) if npt >= n + 1 else (False,)):
            if pid == 'C11' and not lin:
                continue
            hs.append(Harness("fit[n=%d,m=%d,npt=%d,spread=%g,base=%g,%s]" % (n, m, npt, spread, base, 'linear-data' if lin else 'free-data'),
                              'dfverif.checks.c16', 'body_fit', params=dict(n=n, m=m, npt=npt, spread=spread, base=base, seed=seed, linear_data=lin),
                              cfg=core.Cfg(qtimeout_ms=60000), functions=FUNCS, home='C16',
                              bounds="concrete geometry (seeded family member: n=%d, npt=%d, spread %g, base %g), residual data / (A, b) symbolic" % (n, npt, spread, base),
                              assumptions=["LAPACK QR of the concrete matrix trusted; triangular solve = exact substitution on the computed factor; sqrt of concrete values in floating point as in the real code",
                                           "tolerance 1e-7 * (sum of |data|) stands for 'rounding amplified by the conditioning of the point set' on this well-conditioned family"],
                              expect=[], nproc=1))
    return hs


def harnesses(tier, seed):
    hs = fit_harnesses(tier, seed, 'C16')
    for (n, m) in ([(1, 1), (2, 1)] if tier == 'quick' else [(1, 1), (2, 1), (1, 2), (2, 2)]):
        hs.append(Harness("shift-invariance[n=%d,m=%d]" % (n, m), 'dfverif.checks.c16', 'body_shift', params=dict(n=n, m=m),
                          cfg=core.Cfg(fork_queries=True, qtimeout_ms=60000), functions=FUNCS, bounds="n=%d, m=%d, everything symbolic" % (n, m),
                          assumptions=["real arithmetic (polynomial identities)"], expect=['shift:gradient-of-full-model-unchanged'], nproc=1))
    for (n, m, ndirs) in ([(2, 2, 1), (3, 2, 2), (2, 3, 1)] if tier == 'quick' else [(2, 2, 1), (3, 2, 2), (2, 3, 1), (3, 3, 1), (3, 3, 2), (4, 2, 2), (3, 1, 1)]):
        hs.append(Harness("fullrank-completion[n=%d,m=%d,directions=%d]" % (n, m, ndirs), 'dfverif.checks.c16', 'body_fullrank',
                          params=dict(n=n, m=m, ndirs=ndirs),
                          cfg=core.Cfg(fork_queries=True, qtimeout_ms=(60000 if tier == 'quick' else 240000), portfolio=True, portfolio_s=60, portfolio_logic='QF_NRA'), functions=FUNCS,
                          bounds="growing phase, n=%d, m=%d, %d direction(s): the sliced full-rank completion block on ANY Jacobian given by orthonormal factors U, Vt and sorted s in [0,1e6]" % (n, m, ndirs),
                          assumptions=["scipy.linalg.svd returns the symbolic factors the Jacobian was built from (any SVD of any matrix); parameters = the function's own defaults (read from the AST)",
                                       "premise: smallest known singular value >= 2e-6 and >= 2e-8 * largest (otherwise the conditioning floor changes known directions by design)"],
                          expect=['fullrank:completion-leaves-the-fitted-directions-alone'], nproc=1, wall_budget=400))
    hs.append(Harness("shift-binary64", 'dfverif.checks.c16', 'body_shift_fp', params={}, cfg=core.Cfg(fork_queries=True, qtimeout_ms=120000, logic='QF_FP'),
                      functions=['model.Model.shift_base'], bounds="IEEE binary64, one coordinate, |base| <= 1e9, offsets and shift in [-1,1]",
                      assumptions=["finite inputs"], expect=['shift:offsets-move-by-one-rounded-subtraction'], nproc=1))
    # "factorisation_current must be cleared by every mutation of the point set" (so that arbitrary interleavings of replacements,
    # resampling, swaps and shifts never meet a stale QR): C17's one-operation harnesses, from any state with the cache marked current
    from . import c17
    for h in c17.model_harnesses('quick', seed):
        if not h.params['with_h'] and h.params['op'] in ('change_point', 'change_point_nokopt', 'add_new_sample', 'add_new_point', 'swap_points', 'shift_base'):
            h.home = 'C17'
            h.name = 'model:' + h.name
            hs.append(h)
    return hs


def run(tier, seed):
    return run_property(
        'C16', harnesses(tier, seed), tier, seed,
        explanation="PARTIAL. Semi-symbolic (concrete geometry, symbolic data; z3 LRA) execution of the real fitting code: interpolation / "
                    "normal equations / growing-phase interpolation hold for ALL data; fully symbolic QF_NRA: base shifts leave the "
                    "assembled gradient and Hessian unchanged (model values: C17 harness). Lagrange identities have concrete geometry and "
                    "concrete right-hand sides (plain evaluations, not solver results) and are not claimed. NOT decided: rounding "
                    "proportional to conditioning; long interleavings only through the one-step form.")
