"""
C16 - interpolation models reproduce their data and survive base shifts (PARTIAL: rounding proportional to conditioning
is not decided).

(a) semi-symbolic fit: real Model.interpolate_mini_models_svd -> factorise_geom_system -> solve_geom_system on a CONCRETE
    point geometry (seeded family: spreads over decades, base far from the origin) with SYMBOLIC residual data.  QR of the
    concrete matrix is delegated to LAPACK; the triangular solve with a symbolic right-hand side is exact back-substitution
    on the concrete factor.  Everything downstream is linear in the symbols, so z3 decides for ALL data:
    interpolation (npt = n+1 and growing npt < n+1), normal equations (npt > n+1), and J = A for linear data (C11).
(b) fully symbolic (QF_NRA): shift_base changes neither the model value at any absolute point (C17 harness) nor the
    assembled gradient / Hessian of build_full_model.
"""
import random
from fractions import Fraction

from ..harness import Harness, run_property
from .. import core
from ..state import mk_model


def _geometry(n, npt, spread, base, seed):
    rnd = random.Random(seed * 7919 + n * 131 + npt * 17 + int(spread * 1e6) % 1000)
    pts = [[0.0] * n]
    for k in range(1, npt):
        v = [0.0] * n
        j = (k - 1) % n
        sgn = 1.0 if (k - 1) < n else -1.0
        v[j] = sgn * spread
        v = [vi + spread * 0.2 * (rnd.random() - 0.5) for vi in v]
        pts.append(v)
    xb = [base + 0.37 * i for i in range(n)]
    return xb, pts


def _la_exact_triangular(E):
    """scipy.linalg.solve_triangular(R, B[, trans='T']) for a concrete R and symbolic B: exact substitution"""
    from ..arr import SArr

    def la(name, args, kw):
        if name != 'solve_triangular':
            return NotImplemented
        R, B = args
        return NotImplemented if not E.symbolic else None
    return la


def _install_triangular(E):
    if not E.symbolic:
        return
    from .. import shim
    from ..arr import SArr

    def solve_triangular(a, b, trans=0, **kw):
        a = shim.arr.asarr(a)
        b = shim.arr.asarr(b)
        if not shim.all_concrete(a):
            raise core.PathAbort('unsupported', 'triangular solve with a symbolic factor')
        k = a.shape[0]
        A = [[a[i, j] for j in range(k)] for i in range(k)]
        if trans in ('T', 1):
            A = [[A[j][i] for j in range(k)] for i in range(k)]     # lower triangular now
            lower = True
        else:
            lower = False
        for i in range(k):
            if A[i][i] == 0:
                raise shim.LA.LinAlgError("singular matrix")
        vec = (b.ndim == 1)
        cols = 1 if vec else b.shape[1]
        X = [[None] * cols for _ in range(k)]
        order = range(k) if lower else range(k - 1, -1, -1)
        for c in range(cols):
            for i in order:
                s_ = b[i] if vec else b[i, c]
                rng_ = range(i) if lower else range(i + 1, k)
                for j in rng_:
                    s_ = s_ - A[i][j] * X[j][c]
                X[i][c] = s_ / A[i][i]
        flat = [X[i][c] for i in range(k) for c in range(cols)]
        return SArr.from_flat(flat, (k,) if vec else (k, cols), 'f')
    shim.LA.solve_triangular = staticmethod(solve_triangular)
    E.ns['LA'] = shim.LA


def body_fit(E, n, m, npt, spread, base, seed, linear_data):
    np = E.np
    E.float_sqrt(True)
    _install_triangular(E)
    xb_c, pts_c = _geometry(n, npt, spread, base, seed)
    Model = E.get('Model')
    xb = E.arr(xb_c, 'f')
    big = 1e20
    num_pts = max(npt, n + 1)
    M = Model(num_pts, xb, E.arr([0.0] * m, 'f'), E.arr([-big] * n, 'f'), E.arr([big] * n, 'f'), [], 1, do_logging=False)
    M.npt_so_far = npt
    A = b = None
    if linear_data:
        A = E.mat('A', m, n)
        b = E.vec('b', m)
    data = []
    for k in range(npt):
        M.points[k, :] = E.arr(pts_c[k], 'f')
        if linear_data:
            row = np.dot(A, M.xbase + M.points[k, :]) - b
        else:
            row = E.vec('y%d_' % k, m)
        M.fval_v[k, :] = row
        data.append(row)
        M.eval_num[k] = 10 + k
    M.kopt = (npt - 1) if (seed + n + npt) % 2 == 0 else 0      # the fit is centred at the incumbent: exercise a non-trivial centre
    try:
        ok = M.interpolate_mini_models_svd(make_full_rank=False)[0]
    except Exception as e:    # noqa
        E.fail('fit:raises-' + type(e).__name__, detail=str(e)[:200])
        return
    E.prove(bool(ok), 'fit:well-poised-set-is-fitted')
    if not ok:
        return
    absv = lambda v: E.ite(v >= 0, v, -v)
    if linear_data:
        S = sum(absv(A[i, j]) for i in range(m) for j in range(n)) * (abs(base) + 1) + sum(absv(b[i]) for i in range(m))
    else:
        S = sum(absv(data[k][j]) for k in range(npt) for j in range(m))
    eps = E.const('1e-7')
    res = []
    for k in range(npt):
        pred = M.model_const + np.dot(M.model_jac, M.points[k, :])
        res.append(pred - data[k])
    if npt <= n + 1:
        for k in range(npt):
            E.prove(E.all([absv(res[k][j]) <= eps * S for j in range(m)]), 'fit:model-reproduces-the-data-at-every-point[npt%sn+1]' % ('=' if npt == n + 1 else '<'))
    else:
        for j in range(m):
            E.prove(absv(sum(res[k][j] for k in range(npt))) <= eps * S * npt, 'fit:regression-residual-orthogonal-to-constant-column')
            for i in range(n):
                E.prove(absv(sum(res[k][j] * Fraction(pts_c[k][i]) for k in range(npt)) if E.symbolic else
                             sum(res[k][j] * pts_c[k][i] for k in range(npt))) <= eps * S * npt * spread,
                        'fit:regression-residual-orthogonal-to-coordinate-columns')
    E.prove(E.all([p == q for p, q in zip(E.flat(M.model_jac_eval_nums), E.flat(M.eval_num[:npt] if npt == num_pts else M.eval_num))]),
            'C11:fit:eval-number-snapshot-is-the-slots-eval-numbers')
    snap = [v for v in E.flat(M.model_jac_eval_nums)]
    M.eval_num[0] = 999          # a later point replacement must not change the recorded numbers
    E.prove(E.all([p == q for p, q in zip(E.flat(M.model_jac_eval_nums), snap)]), 'C11:fit:eval-number-snapshot-is-a-copy-not-an-alias')
    if linear_data and npt >= n + 1:
        E.prove(E.all([absv(M.model_jac[i, j] - A[i, j]) <= eps * S / spread for i in range(m) for j in range(n)]), 'C11:fit:jacobian-of-linear-residuals-is-A')


def body_shift(E, n, m):
    np = E.np
    M, ghost = mk_model(E, n, m, n + 1, n + 1, with_h=False, xr=False, with_save=False)
    g0, H0 = M.build_full_model()
    s = E.vec('s', n)
    M.shift_base(s)
    g1, H1 = M.build_full_model()
    E.prove(E.all([E.eq(g0[i], g1[i]) for i in range(n)]), 'shift:gradient-of-full-model-unchanged')
    E.prove(E.all([E.eq(H0[i, j], H1[i, j]) for i in range(n) for j in range(n)]), 'shift:hessian-of-full-model-unchanged')


def body_shift_fp(E):
    """binary64: a base shift moves every stored offset by ONE rounded subtraction (points - shift); in particular the relative
    geometry is perturbed by at most half an ulp of the offsets, not by an ulp of the (possibly far away) base point"""
    from .. import sym
    Model = E.get('Model')
    x0 = E.vec('x0_', 1, fp=True)
    p = E.vec('p', 1, fp=True)
    s = E.vec('s', 1, fp=True)
    if E.symbolic:
        import z3
        for a in (x0, p, s):
            for v in a.flat():
                E.assume(sym.wrapb(z3.Not(z3.Or(z3.fpIsNaN(v.t), z3.fpIsInf(v.t)))), check=False)
    E.assume(E.all([x0[0] >= -10 ** 9, x0[0] <= 10 ** 9, p[0] >= -1, p[0] <= 1, s[0] >= -1, s[0] <= 1]), check=False)
    big = 1e20
    M = Model(2, x0, E.arr([0.5], 'f'), E.arr([-big], 'f'), E.arr([big], 'f'), [], 1, do_logging=False)
    M.points[1, :] = p
    M.npt_so_far = 2
    M.shift_base(s)
    expect = p[0] - s[0]
    E.prove(M.points[1, 0] == expect, 'shift:offsets-move-by-one-rounded-subtraction')
    E.prove(M.xbase[0] == x0[0] + s[0], 'shift:base-moves-by-the-shift')


FUNCS = ['model.Model.interpolation_matrix', 'model.Model.factorise_geom_system', 'model.Model.solve_geom_system',
         'model.Model.interpolate_mini_models_svd', 'model.Model.build_full_model', 'model.Model.shift_base', 'model.Model.xpt_directions',
         'model.Model.distances_to_xopt']


def fit_harnesses(tier, seed, pid):
    hs = []
    if tier == 'quick':
        grid = [(1, 1, 2, 1.0, 0.0), (2, 2, 3, 0.01, 100.0), (2, 1, 5, 1.0, 10.0), (2, 1, 2, 0.1, 1.0)]
    else:
        grid = []
        for n in (1, 2, 3):
            for npt in sorted(set([2, n, n + 1, n + 2, 2 * n + 1])):
                if npt < 2:
                    continue
                for (spread, base) in ((1.0, 0.0), (0.01, 100.0), (1e-4, 1000.0), (10.0, -50.0)):
                    grid.append((n, 2 if n < 3 else 1, npt, spread, base))
    for (n, m, npt, spread, base) in grid:
        for lin in ((False, True) if npt >= n + 1 else (False,)):
            if pid == 'C11' and not lin:
                continue
            hs.append(Harness("fit[n=%d,m=%d,npt=%d,spread=%g,base=%g,%s]" % (n, m, npt, spread, base, 'linear-data' if lin else 'free-data'),
                              'dfverif.checks.c16', 'body_fit', params=dict(n=n, m=m, npt=npt, spread=spread, base=base, seed=seed, linear_data=lin),
                              cfg=core.Cfg(qtimeout_ms=60000), functions=FUNCS, home='C16',
                              bounds="concrete geometry (seeded family member: n=%d, npt=%d, spread %g, base %g), residual data / (A, b) symbolic" % (n, npt, spread, base),
                              assumptions=["LAPACK QR of the concrete matrix trusted; triangular solve = exact substitution on the computed factor; sqrt of concrete values in floating point as in the real code",
                                           "tolerance 1e-7 * (sum of |data|) stands for 'rounding amplified by the conditioning of the point set' on this well-conditioned family"],
                              expect=[], nproc=1))
    return hs


def harnesses(tier, seed):
    hs = fit_harnesses(tier, seed, 'C16')
    for (n, m) in ([(1, 1), (2, 1)] if tier == 'quick' else [(1, 1), (2, 1), (1, 2), (2, 2)]):
        hs.append(Harness("shift-invariance[n=%d,m=%d]" % (n, m), 'dfverif.checks.c16', 'body_shift', params=dict(n=n, m=m),
                          cfg=core.Cfg(fork_queries=True, qtimeout_ms=60000), functions=FUNCS, bounds="n=%d, m=%d, everything symbolic" % (n, m),
                          assumptions=["real arithmetic (polynomial identities)"], expect=['shift:gradient-of-full-model-unchanged'], nproc=1))
    hs.append(Harness("shift-binary64", 'dfverif.checks.c16', 'body_shift_fp', params={}, cfg=core.Cfg(fork_queries=True, qtimeout_ms=120000, logic='QF_FP'),
                      functions=['model.Model.shift_base'], bounds="IEEE binary64, one coordinate, |base| <= 1e9, offsets and shift in [-1,1]",
                      assumptions=["finite inputs"], expect=['shift:offsets-move-by-one-rounded-subtraction'], nproc=1))
    # "factorisation_current must be cleared by every mutation of the point set" (so that arbitrary interleavings of replacements,
    # resampling, swaps and shifts never meet a stale QR): C17's one-operation harnesses, from any state with the cache marked current
    from . import c17
    for h in c17.harnesses('quick', seed):
        if not h.params['with_h'] and h.params['op'] in ('change_point', 'change_point_nokopt', 'add_new_sample', 'add_new_point', 'swap_points', 'shift_base'):
            h.home = 'C17'
            h.name = 'model:' + h.name
            hs.append(h)
    return hs


def run(tier, seed):
    return run_property(
        'C16', harnesses(tier, seed), tier, seed,
        explanation="PARTIAL. Semi-symbolic (concrete geometry, symbolic data; z3 LRA) execution of the real fitting code: interpolation / "
                    "normal equations / growing-phase interpolation hold for ALL data; fully symbolic QF_NRA: base shifts leave the "
                    "assembled gradient and Hessian unchanged (model values: C17 harness). Lagrange identities have concrete geometry and "
                    "concrete right-hand sides (plain evaluations, not solver results) and are not claimed. NOT decided: rounding "
                    "proportional to conditioning; long interleavings only through the one-step form.")
