"""
C17 - Model bookkeeping stays consistent under any sequence of updates.

One operation of the real `Model` from an arbitrary state satisfying the bookkeeping invariant
(dfverif.state.mk_model), in extended reals (NaN, +-inf, ties included).  The invariant is
re-established by every operation => sequences of any length follow by induction.
"""
from ..harness import Harness, run_property
from .. import core
from ..state import mk_model, objective

OPS = ['change_point', 'change_point_nokopt', 'add_new_sample', 'add_new_point', 'swap_points', 'shift_base',
       'save_point_abs', 'save_point_rel', 'get_final_results']


def check_slots(E, M, ghost, op, kopt_exempt=False):
    np = E.np
    npt = M.npt()
    E.prove(npt == len(ghost), op + ':npt')
    n, m = M.n(), M.m()
    for k in range(min(npt, len(ghost))):
        g = ghost[k]
        xk = M.xbase + M.points[k, :]
        E.prove(E.all([E.eq(xk[i], g['x'][i]) for i in range(n)]), op + ':slot-point')
        E.prove(E.all([E.same(M.fval_v[k, j], g['mean'][j]) for j in range(m)]), op + ':slot-residual-is-mean')
        E.prove(M.nsamples[k] == g['cnt'], op + ':slot-sample-count')
        E.prove(M.eval_num[k] == g['ev'], op + ':slot-eval-number')
        E.prove(E.same(M.objval[k], objective(E, M, M.fval_v[k, :], xk)), op + ':slot-objective')
    # sample counts and evaluation numbers are integer-typed storage (they are handed out as xmin_eval_num / jacmin_eval_nums and
    # must survive the JSON round trip of the result unchanged, C20)
    isint = (lambda a: a.dtype == 'i') if E.symbolic else (lambda a: a.dtype.kind in 'iu')
    E.prove(bool(isint(M.eval_num) and isint(M.nsamples)), op + ':counters-stay-integer-typed')
    E.prove(bool(isint(M.eval_num) and isint(M.nsamples)), 'C20:%s:evaluation-numbers-stay-integer-typed' % op)
    cap = int(M.num_pts)
    E.prove(bool(tuple(M.eval_num.shape) == (cap,) and tuple(M.nsamples.shape) == (cap,) and tuple(M.objval.shape) == (cap,)
                 and tuple(M.points.shape) == (cap, n) and tuple(M.fval_v.shape) == (cap, m)), op + ':per-point-arrays-have-one-entry-per-slot')
    kopt = M.kopt
    E.prove(E.all([0 <= kopt, kopt < npt]), op + ':kopt-range')
    if not kopt_exempt:
        kopt = int(kopt)
        E.prove(E.all([E.no(M.objval[k] < M.objval[kopt]) for k in range(npt)]), op + ':kopt-is-minimal')
        anyok = E.any([E.no(E.isnan(M.objval[k])) for k in range(npt)])
        E.prove(E.implies(anyok, E.no(E.isnan(M.objval[kopt]))), op + ':kopt-not-nan-if-some-value-is-not-nan')
    E.prove(M.factorisation_current == False, op + ':factorisation-invalidated')  # noqa: E712
    E.prove(M.factorisation_current == False, 'C16:%s:cached-factorisation-cleared-by-the-mutation' % op)  # noqa: E712


def better(E, a, b):
    """a is at least as good as b: not worse, and not NaN unless b is NaN too"""
    return E.all([E.no(b < a), E.implies(E.no(E.isnan(b)), E.no(E.isnan(a)))])


def body(E, op, n, m, num_pts, npt_so_far, with_h, scaling=False):
    M, ghost = mk_model(E, n, m, num_pts, npt_so_far, with_h=with_h, xr=True, scaling=scaling)
    npt = M.npt()
    M.factorisation_current = True if op not in ('save_point_abs', 'save_point_rel', 'get_final_results') else False
    if M.factorisation_current:
        # a cache marked current comes with its factors (arbitrary values of the right shapes)
        p_, c_ = npt, n + 1
        M.qr_of_transpose = p_ < c_
        M.Q = E.mat('Qc', max(p_, c_), min(p_, c_))
        M.R = E.mat('Rc', min(p_, c_), min(p_, c_))
        M.left_scaling = E.np.ones((p_,))
        M.right_scaling = E.np.ones((c_,))
    kopt0 = M.kopt
    if op in ('change_point', 'change_point_nokopt'):
        growing = npt_so_far < num_pts
        k = int(E.int('k', 0, npt if growing else npt - 1))
        x = E.vec('xn', n)
        E.assume(E.all([M.sl[i] <= x[i] for i in range(n)] + [x[i] <= M.su[i] for i in range(n)]))
        r = E.vec('rn', m, xr=True)
        ev = E.int('evn', 1, None)
        allow = (op == 'change_point')
        M.change_point(k, x, r, ev, allow_kopt_update=allow)
        rec = {'x': M.xbase + x, 'mean': r, 'cnt': 1, 'ev': ev}
        if k == len(ghost):
            ghost.append(rec)
        else:
            ghost[k] = rec
        # the incumbent may stop being minimal only if it was itself overwritten (or updates were disabled)
        check_slots(E, M, ghost, op, kopt_exempt=(k == kopt0 or not allow))
        if not allow:
            E.prove(M.kopt == kopt0, op + ':kopt-unchanged')
    elif op == 'add_new_sample':
        k = int(E.int('k', 0, npt - 1))
        c = int(ghost[k]['cnt'])
        r = E.vec('rx', m, xr=True)
        M.add_new_sample(k, r)
        mean = [(c * ghost[k]['mean'][j] + r[j]) / (c + 1) for j in range(m)]
        ghost[k] = {'x': ghost[k]['x'], 'mean': mean, 'cnt': c + 1, 'ev': ghost[k]['ev']}
        check_slots(E, M, ghost, op)
    elif op == 'add_new_point':
        E.assume(npt_so_far == num_pts)
        x = E.vec('xn', n)
        r = E.vec('rn', m, xr=True)
        ev = E.int('evn', 1, None)
        M.add_new_point(x, r, ev)
        ghost.append({'x': M.xbase + x, 'mean': r, 'cnt': 1, 'ev': ev})
        check_slots(E, M, ghost, op)
    elif op == 'swap_points':
        k1 = int(E.int('k1', 0, npt - 1))
        k2 = int(E.int('k2', 0, npt - 1))
        M.swap_points(k1, k2)
        ghost[k1], ghost[k2] = ghost[k2], ghost[k1]
        check_slots(E, M, ghost, op)
    elif op == 'shift_base':
        s = E.vec('s', n)
        X = E.vec('X', n)   # an arbitrary absolute point: the linear models must not change there
        before = M.model_const + E.np.dot(M.model_jac, X - M.xbase)
        lo, hi = M.xbase + M.sl, M.xbase + M.su
        M.shift_base(s)
        after = M.model_const + E.np.dot(M.model_jac, X - M.xbase)
        check_slots(E, M, ghost, op)
        E.prove(E.all([E.eq(before[j], after[j]) for j in range(m)]), op + ':model-value-unchanged')
        E.prove(E.all([E.eq((M.xbase + M.sl)[i], lo[i]) for i in range(n)] +
                      [E.eq((M.xbase + M.su)[i], hi[i]) for i in range(n)]), op + ':bounds-move-with-base')
    elif op in ('save_point_abs', 'save_point_rel'):
        had = M.objsave is not None
        old = (M.xsave, M.rsave, M.objsave, M.nsamples_save, M.eval_num_save) if had else None
        x = E.vec('xn', n)
        r = E.vec('rn', m, xr=True)
        cnt = E.int('cn', 1, 3)
        ev = E.int('evn', 1, None)
        absx = (op == 'save_point_abs')
        if not absx:
            E.assume(E.all([M.sl[i] <= x[i] for i in range(n)] + [x[i] <= M.su[i] for i in range(n)]))
        xabs = x if absx else M.xbase + x
        newobj = objective(E, M, r, xabs)
        ret = M.save_point(x, r, cnt, ev, x_in_abs_coords=absx)
        E.prove(M.objsave is not None, op + ':slot-filled')
        # the slot holds either the old record or the new one, whole
        is_new = E.all([E.eq(M.xsave[i], xabs[i]) for i in range(n)] + [E.same(M.rsave[j], r[j]) for j in range(m)] +
                       [M.nsamples_save == cnt, M.eval_num_save == ev, E.same(M.objsave, newobj)])
        if had:
            is_old = E.all([E.eq(M.xsave[i], old[0][i]) for i in range(n)] + [E.same(M.rsave[j], old[1][j]) for j in range(m)] +
                           [M.nsamples_save == old[3], M.eval_num_save == old[4], E.same(M.objsave, old[2])])
            E.prove(E.any([is_new, is_old]), op + ':saved-record-is-whole')
            E.prove(better(E, M.objsave, old[2]), op + ':saved-not-worse-than-old-prefers-non-nan')
        else:
            E.prove(is_new, op + ':saved-record-is-whole')
        E.prove(better(E, M.objsave, newobj), op + ':saved-not-worse-than-new-prefers-non-nan')
        check_slots_unchanged(E, M, ghost, op)
        # the saved record owns its data: later in-place changes of the live model / of the caller's vector do not reach it
        keep = ([v for v in E.flat(M.rsave)], [v for v in E.flat(M.jacsave)] if M.jacsave is not None else None,
                [v for v in E.flat(M.jacsave_eval_nums)] if M.jacsave_eval_nums is not None else None, [v for v in E.flat(M.xsave)])
        r[0] = r[0] + 1
        x[0] = x[0] + 1
        M.model_jac[0, 0] = M.model_jac[0, 0] + 1
        M.model_jac_eval_nums[0] = M.model_jac_eval_nums[0] + 1
        M.fval_v[:, :] = M.fval_v + 1
        same_ = lambda a, b: True if a is None else E.all([E.same(p_, q_) for p_, q_ in zip(E.flat(a), b)])
        E.prove(E.all([same_(M.rsave, keep[0]), same_(M.jacsave, keep[1]), same_(M.jacsave_eval_nums, keep[2]), same_(M.xsave, keep[3])]),
                op + ':saved-record-is-a-copy-not-an-alias')
    elif op == 'get_final_results':
        x, r, obj, jac, cnt, ev, jev = M.get_final_results()
        k = int(M.kopt)
        xo = M.xbase + M.points[k, :]
        from_opt = E.all([E.eq(x[i], xo[i]) for i in range(n)] + [E.same(r[j], M.fval_v[k, j]) for j in range(m)] +
                         [cnt == M.nsamples[k], ev == M.eval_num[k], E.same(obj, M.objval[k])])
        E.prove(better(E, obj, M.objval[k]), op + ':not-worse-than-incumbent-prefers-non-nan')
        if M.objsave is not None:
            from_save = E.all([E.eq(x[i], M.xsave[i]) for i in range(n)] + [E.same(r[j], M.rsave[j]) for j in range(m)] +
                              [cnt == M.nsamples_save, ev == M.eval_num_save, E.same(obj, M.objsave)])
            E.prove(E.any([from_opt, from_save]), op + ':result-is-one-whole-record')
            E.prove(better(E, obj, M.objsave), op + ':not-worse-than-saved-prefers-non-nan')
        else:
            E.prove(from_opt, op + ':result-is-one-whole-record')
        E.prove(E.same(obj, objective(E, M, r, x)), op + ':obj-is-F-of-returned-r-and-x')
        # C11: the Jacobian and the evaluation numbers handed back belong to the same record as x
        sameA = lambda A_, B_: (A_ is None and B_ is None) or (A_ is not None and B_ is not None and tuple(A_.shape) == tuple(B_.shape) and
                                                                 E.all([E.same(p_, q_) for p_, q_ in zip(E.flat(A_), E.flat(B_))]))
        jac_opt = E.all([from_opt, sameA(jac, M.model_jac), sameA(jev, M.model_jac_eval_nums)])
        if M.objsave is not None:
            jac_save = E.all([from_save, sameA(jac, M.jacsave), sameA(jev, M.jacsave_eval_nums)])
            E.prove(E.any([jac_opt, jac_save]), 'C11:get_final_results:jacobian-and-eval-numbers-belong-to-the-returned-record')
        else:
            E.prove(jac_opt, 'C11:get_final_results:jacobian-and-eval-numbers-belong-to-the-returned-record')


def check_slots_unchanged(E, M, ghost, op):
    n, m = M.n(), M.m()
    for k in range(len(ghost)):
        g = ghost[k]
        xk = M.xbase + M.points[k, :]
        E.prove(E.all([E.eq(xk[i], g['x'][i]) for i in range(n)] + [E.same(M.fval_v[k, j], g['mean'][j]) for j in range(m)] +
                      [M.nsamples[k] == g['cnt'], M.eval_num[k] == g['ev']]), op + ':slots-untouched')


FUNCS = ['model.Model.change_point', 'model.Model.add_new_sample', 'model.Model.add_new_point', 'model.Model.swap_points',
         'model.Model.shift_base', 'model.Model.save_point', 'model.Model.get_final_results', 'model.Model.__init__',
         'model.Model.xpt', 'model.Model.as_absolute_coordinates', 'util.sumsq', 'util.remove_scaling']


def model_harnesses(tier, seed):
    hs = []
    dims = [(1, 1, 3)] if tier == 'quick' else [(1, 1, 3), (2, 2, 3), (2, 1, 4)]
    for (n, m, num_pts) in dims:
        for op in OPS:
            for with_h in ((False, True) if (n, m) == (1, 1) else (False,)):
                for npt_so_far in sorted(set([num_pts, num_pts - 1, 2])):
                    if op == 'add_new_point' and npt_so_far != num_pts:
                        continue
                    if op == 'get_final_results' and npt_so_far != num_pts:
                        continue
                    scaling = bool(with_h and npt_so_far == num_pts)      # regulariser together with internal scaling (h sees user units)
                    name = "%s[n=%d,m=%d,npt=%d/%d,h=%d%s]" % (op, n, m, npt_so_far, num_pts, with_h, ',scaling' if scaling else '')
                    hs.append(Harness(
                        name, 'dfverif.checks.c17', 'body',
                        params=dict(op=op, n=n, m=m, num_pts=num_pts, npt_so_far=npt_so_far, with_h=with_h, scaling=scaling),
                        cfg=core.Cfg(fork_queries=True, qtimeout_ms=20000 if tier == 'quick' else 60000, portfolio=scaling, portfolio_s=30),
                        functions=FUNCS,
                        bounds="n=%d, m=%d, num_pts=%d, npt_so_far=%d, sample counts <= 3, one operation from any invariant state" % (n, m, num_pts, npt_so_far),
                        assumptions=["pre-state satisfies the bookkeeping invariant (objval = F(fval_v, point), incumbent minimal and not NaN if some value is not NaN, counts >= 1)",
                                     "extended reals: NaN/+-inf exact, finite rounding and overflow not modelled",
                                     "regulariser family h(x) = lam*sum|x_i - c_i| (lam, c symbolic)"],
                        nproc=1, max_replays=3))
    return hs


def harnesses(tier, seed):
    hs = model_harnesses(tier, seed)
    # the controller's own writers of the per-point arrays and of the saved slot (samples averaged over the rows actually filled,
    # budget ending at any sample): geometry step, soft restart, extra regression steps - one action from any valid state
    from .. import step
    for h in step.action_harnesses(tier, seed, 'C17'):
        if tier != 'quick' or h.name.startswith(('action[geometry_step', 'action[momentum', 'action[extra', 'action[soft_restart,n=1')):
            hs.append(h)
    return hs


def run(tier, seed):
    return run_property(
        'C17', harnesses(tier, seed), tier, seed,
        explanation="Symbolic execution (z3, QF_NRA + extended-real flags) of every Model mutator and of save_point/"
                    "get_final_results from an arbitrary state satisfying the bookkeeping invariant; obligations: invariant "
                    "re-established, per-slot arrays move together (ghost records), running mean exact, final selection "
                    "prefers non-NaN. Counterexamples are replayed on the imported dfols.Model before being reported.")
