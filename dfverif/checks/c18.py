"""
C18 - trust-region radii and the diagnostic table obey their invariants.

(1) STEP: INV-radii re-established at every `continue` of one main-loop iteration (all updates in context).
(2) exact nonlinear (QF_NRA) harnesses for the pieces STEP only sees through the UF abstraction:
    Controller.reduce_rho, and the sliced "update delta" block of solve_main with all tr_radius parameters symbolic.
(3) STEP with the diagnostics preset: one row per recorded iteration, row fields consistent.
"""
import ast

from ..harness import Harness, run_property
from .. import core, loader, step
from ..state import mk_params


def body_reduce_rho(E, noise):
    Controller = E.get('Controller')
    params = mk_params(E, 1, 2, 10, 'noise' if noise else 'default')
    a1 = E.real('alpha1', npy=False)
    a2 = E.real('alpha2', npy=False)
    E.assume(E.all([a1 > 0, a1 < 1, a2 > 0, a2 < 1]))
    params.params["tr_radius.alpha1"] = a1
    params.params["tr_radius.alpha2"] = a2
    C = Controller.__new__(Controller)
    C.rho = E.real('rho', npy=False)
    C.rhoend = E.real('rhoend', npy=False)
    C.delta = E.real('delta', npy=False)
    C.last_successful_iter = 0
    rhobeg = E.real('rhobeg', npy=False)
    E.assume(E.all([0 < C.rhoend, C.rhoend < C.rho, C.rho <= rhobeg, C.rho <= C.delta, C.delta <= E.const(10 ** 10), rhobeg <= E.const(10 ** 9)]))
    rho0 = C.rho
    it = E.int('iter', 0, None)
    C.reduce_rho(it, params)
    E.prove(C.rho < rho0, 'reduce_rho:rho-strictly-decreases')
    E.prove(C.rho >= C.rhoend, 'reduce_rho:rho-not-below-rhoend')
    E.prove(E.all([C.delta >= C.rho, C.delta <= E.const(10 ** 10)]), 'reduce_rho:rho<=delta<=1e10')
    E.prove(C.last_successful_iter == it, 'reduce_rho:resets-successful-iteration-marker')
    # the documented recommendation: with alpha1 >= 1/250 the floor holds
    E.prove(E.implies(a1 * 250 >= 1, C.rho >= C.rhoend), 'reduce_rho:rho-not-below-rhoend-when-alpha1>=1/250')


def body_restart_npt(E, n):
    """soft restart that adds points: the point set never grows beyond restarts.max_npt"""
    from ..state import mk_controller, mk_objfun, EvalLog
    log = EvalLog()
    objfun = mk_objfun(E, 1, log)
    C, M, ghost, params = mk_controller(E, n, 1, n + 1, n + 1, preset='soft-restarts', with_save=False, objfun=objfun)
    amt = E.int('amt', 0, 3)
    max_npt = E.int('max_npt', n + 1, n + 4)
    params.params["restarts.increase_npt"] = True
    params.params["restarts.increase_npt_amt"] = amt
    params.params["restarts.max_npt"] = max_npt
    E.patch_attr(E.get('Controller'), 'geometry_step', lambda self, knew, adelt, number_of_samples, params: None)

    def rnd_dirs(num_pts, delta, lower, upper):
        num_pts = int(num_pts)
        D = E.mat('rd', num_pts, n)
        E.assume(E.all([lower[i] <= D[k, i] for k in range(num_pts) for i in range(n)] + [D[k, i] <= upper[i] for k in range(num_pts) for i in range(n)]))
        return D
    E.patch('random_directions_within_bounds', rnd_dirs)
    nruns = E.int('nruns', 0, None)
    E.assume(C.last_successful_run <= nruns)
    npt0 = M.npt()
    exit_info = C.soft_restart(1, nruns, params)
    E.prove(E.all([M.npt() <= max_npt, M.num_pts <= max_npt]), 'restart:number-of-points-never-exceeds-restarts.max_npt')
    E.prove(M.npt() >= npt0, 'restart:points-are-only-added')
    if exit_info is None:
        want = E.ite(amt < max_npt - npt0, amt, max_npt - npt0)
        E.prove(M.npt() == npt0 + want, 'restart:adds-min(increase_npt_amt,room)-points')


def _find_update_delta(fn):
    """the `if ratio < params("tr_radius.eta1"): ... elif ... else ...` statement and the snap `if control.delta <= 1.5*control.rho` after it"""
    def is_eta1_test(t):
        return (isinstance(t, ast.Compare) and isinstance(t.left, ast.Name) and t.left.id == 'ratio' and len(t.ops) == 1 and
                isinstance(t.ops[0], ast.Lt) and isinstance(t.comparators[0], ast.Call) and
                getattr(t.comparators[0].func, 'id', None) == 'params' and t.comparators[0].args and
                getattr(t.comparators[0].args[0], 'value', None) == 'tr_radius.eta1')
    for node in ast.walk(fn):
        for field in ('body', 'orelse'):
            lst = getattr(node, field, None)
            if not isinstance(lst, list):
                continue
            for i, s in enumerate(lst):
                if isinstance(s, ast.If) and is_eta1_test(s.test) and s.orelse and i + 1 < len(lst):
                    nxt = lst[i + 1]
                    if isinstance(nxt, ast.If) and 'control.delta' in ast.unparse(nxt.test) and 'control.rho' in ast.unparse(nxt.test):
                        return [s, nxt]
    raise loader.AnchorError("update-delta block of solve_main not found")


def body_update_delta(E, with_tau, finished_growing):
    Controller = E.get('Controller')
    params = mk_params(E, 1, 2, 10, 'default')
    P = {}
    for key, lo, hi in (("tr_radius.eta1", 0, 1), ("tr_radius.eta2", 0, 1), ("tr_radius.gamma_dec", 0, 1), ("growing.gamma_dec", 0, 1),
                        ("tr_radius.gamma_inc", 1, None), ("tr_radius.gamma_inc_overline", 1, None)):
        v = E.real(key.replace('.', '_'), npy=False, lo=lo, hi=hi)
        params.params[key] = v
        P[key] = v
    E.assume(P["tr_radius.eta1"] <= P["tr_radius.eta2"])
    C = Controller.__new__(Controller)
    C.rho = E.real('rho', npy=False)
    C.delta = E.real('delta', npy=False)
    E.assume(E.all([0 < C.rho, C.rho <= C.delta, C.delta <= E.const(10 ** 10), C.rho <= E.const(10 ** 9)]))
    dnorm = E.real('dnorm', npy=False)
    E.assume(E.all([0 <= dnorm, dnorm <= C.delta]))
    tau = E.const(1)
    if with_tau:
        tau = E.real('tau', npy=False)
        E.assume(E.all([0 < tau, tau <= 1]))
        # this branch is only reached when the step was not a safety step: dnorm >= tau * safety_thresh * rho
        E.assume(dnorm >= tau * params("general.safety_step_thresh") * C.rho)
    ratio = E.real('ratio', xr=True)
    DI = E.get('DiagnosticInfo')()
    env = {'control': C, 'params': params, 'ratio': ratio, 'dnorm': dnorm, 'tau': tau, 'finished_growing': finished_growing,
           'diagnostic_info': DI}
    blk = E.make_step('solver', 'solve_main', _find_update_delta, '__upd', False)
    blk(env)
    E.prove(C.delta >= C.rho, 'update-delta:delta>=rho')
    E.prove(C.delta <= E.const(10 ** 10), 'update-delta:delta<=1e10[tau=%d]' % with_tau)
    E.prove(C.delta > 0, 'update-delta:delta-positive')


def body_initial_radius(E):
    """delta starts as rhobeg: is the 1e10 cap respected by what solve lets through?"""
    from ..harness import Stop
    got = {}

    def solve_main(objfun, x0_, argsf, xl_, xu_, projections, npt, rhobeg_, *a, **k):
        got['rhobeg'] = rhobeg_
        raise Stop('solve_main')
    E.patch('solve_main', solve_main)
    rhobeg = E.real('rhobeg', npy=False)
    rhoend = E.real('rhoend', npy=False)
    E.assume(E.all([rhoend > 0, rhobeg > rhoend]))
    x0 = E.vec('x0_', 1)
    try:
        E.get('solve')(lambda x: x, x0, rhobeg=rhobeg, rhoend=rhoend)
    except Stop:
        pass
    if 'rhobeg' in got:
        E.prove(got['rhobeg'] <= E.const(10 ** 10), 'initial-delta<=1e10')


FUNCS = ['controller.Controller.reduce_rho', 'solver.solve_main']


def harnesses(tier, seed):
    hs = list(step.step_harnesses(tier, seed, 'C18') + step.action_harnesses(tier, seed, 'C18'))
    hs.append(Harness("initial-radius", 'dfverif.checks.c18', 'body_initial_radius', params={}, cfg=core.Cfg(qtimeout_ms=20000),
                      functions=['solver.solve'], bounds="n=1, unconstrained, any rhobeg > rhoend > 0",
                      assumptions=["solve_main stubbed (records the rhobeg it is given; delta starts as rhobeg)"],
                      expect=['initial-delta<=1e10'], nproc=1))
    cfg = lambda: core.Cfg(fork_queries=True, qtimeout_ms=30000 if tier == 'quick' else 120000)
    for n in ([1] if tier == 'quick' else [1, 2]):
        hs.append(Harness("soft-restart-adds-points[n=%d]" % n, 'dfverif.checks.c18', 'body_restart_npt', params=dict(n=n),
                          cfg=core.Cfg(qtimeout_ms=20000, uflin=True), functions=['controller.Controller.soft_restart', 'model.Model.add_new_point'],
                          bounds="n=%d, any state, restarts.increase_npt_amt in [0,3], restarts.max_npt in [npt, npt+3]" % n,
                          assumptions=["geometry_step stubbed (no exit); random directions by contract"],
                          expect=['restart:number-of-points-never-exceeds-restarts.max_npt'], nproc=None, wall_budget=200))
    for noise in (False, True):
        hs.append(Harness("reduce_rho[noise=%d]" % noise, 'dfverif.checks.c18', 'body_reduce_rho', params=dict(noise=noise), cfg=cfg(),
                          functions=FUNCS, bounds="any 0 < rhoend < rho <= rhobeg <= 1e9, alpha1, alpha2 symbolic in (0,1)",
                          assumptions=["exact real arithmetic incl. sqrt (QF_NRA)"], expect=['reduce_rho:rho-strictly-decreases'], nproc=1))
    for with_tau in (False, True):
        for fg in (False, True):
            hs.append(Harness("update-delta[tau=%d,finished_growing=%d]" % (with_tau, fg), 'dfverif.checks.c18', 'body_update_delta',
                              params=dict(with_tau=with_tau, finished_growing=fg), cfg=cfg(), functions=FUNCS,
                              bounds="any ratio (NaN/inf included), 0 <= dnorm <= delta, every tr_radius parameter symbolic in its legal range",
                              assumptions=["exact real arithmetic (QF_NRA)", "tau in (0,1] only for regularised problems"],
                              expect=['update-delta:delta>=rho'], nproc=1))
    return hs


def run(tier, seed):
    return run_property(
        'C18', harnesses(tier, seed), tier, seed,
        explanation="Radii invariants (0 < rhoend <= rho <= rhobeg, rho <= delta <= 1e10, rho non-increasing within a run) proved "
                    "re-established by one whole iteration of the real main loop from any state (STEP, z3 LRA+UF), plus exact QF_NRA "
                    "harnesses of Controller.reduce_rho and of the sliced 'update delta' block with symbolic parameters; diagnostic-table "
                    "row obligations in the diagnostics preset. pandas is not executed (the table is built from the checked lists).")
