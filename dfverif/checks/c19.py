"""
C19 - results are reproducible and caller data are never modified.

* caller data: the real solve prologue / restart loop / packaging run on caller-owned arrays (ownership-tracking storage):
  no in-place write reaches x0, the bound arrays, the user_params dict, the projections list or a mutable default (OUTER, C09 prologue);
* randomness: every use of the random direction generators / np.random in one main-loop iteration (STEP) and in the run start
  (RUN-START) is gated by an option documented as using random directions; the default coordinate initialisation draws nothing;
* no hidden state: ParameterList is built per call (OUTER executes solve's own construction).
Bit-identical repetition then follows from determinism of the remaining (pure) code.
"""
from ..harness import Harness, run_property
from .. import core, step, outer, runstart
from . import c09


def body_proj_init_rng(E, n, deficient_calls):
    """projections branch of initialise_coordinate_directions: are random draws USED when the deterministic directions suffice?"""
    from ..state import mk_params, mk_objfun, EvalLog
    from ..arr import SArr
    np = E.np
    log = EvalLog()
    objfun = mk_objfun(E, 1, log)
    params = mk_params(E, n, n + 1, 50)
    x0 = E.vec('x0_', n)
    P = [lambda w: w, lambda w: w]
    big = E.const(10 ** 20)
    xl = E.arr([-big] * n, 'f') if E.symbolic else np.array([-1e20] * n)
    xu = E.arr([big] * n, 'f') if E.symbolic else np.array([1e20] * n)
    C = E.get('Controller')(objfun, (), x0.copy(), E.vec('r0_', 1), 1, xl, xu, P, n + 1, E.const('0.5'), E.const('0.0005'), 1, 1, 50, params, None, False)
    E.patch('dykstra', lambda P_, x, max_iter=100, tol=1e-10: E.vec('dy', n))
    used = []

    class Tainted(SArr):
        def __getitem__(self, key):
            used.append('read')
            return SArr.__getitem__(self, key)

    def rng(kind, size, **kw):
        vals = [E.int('rb', 0, 1) for _ in range(size[0])] if kind == 'randint' else [E.real('rn') for _ in range(size[0])]
        a = SArr.from_flat(vals, (size[0],), 'i' if kind == 'randint' else 'f')
        if kind == 'normal':
            used.append('normal-draw-used')
            return a
        return Tainted(a.st, a.idx, a.shape, a.dtype)
    ranks = []

    def qr_rank(A, tol=1e-15):
        # bounded scenario: the direction matrix is rank deficient for the first `deficient_calls` tests, full rank afterwards
        r = n - 1 if len(ranks) < deficient_calls else n
        ranks.append(r)
        d = E.vec('diag', n, lo=0)
        if r < n:
            E.assume(d[n - 1] == 0)
        return r, d
    E.patch('qr_rank', qr_rank)
    E.hooks(rng=rng)
    try:
        C.initialise_coordinate_directions(1, n, params)
    except RuntimeError:
        E.reach('proj-init:gives-up')
        return
    if ranks and ranks[0] == n:
        E.prove(len(used) == 0, 'proj-init:random-draws-unused-when-coordinate-directions-are-independent')
    else:
        E.prove(len(used) == 0, 'proj-init:no-random-fallback')


def body_qr_rank(E, n):
    """qr_rank(A) as the projections initialisation relies on it: entry k of the returned diagonal is the distance of COLUMN k of A from the
    span of the columns before it (|R_kk| of the plain, unpivoted QR), and the rank counts the entries above the tolerance.  The QR is a
    contract stub: R upper triangular with R^T R = A^T A (plain QR), or - if the code asks for column pivoting - the same for the permuted
    matrix with a non-increasing diagonal."""
    from ..arr import SArr
    np = E.np
    A = E.mat('A', n, n)
    tol = E.real('tol', npy=False, lo=0)
    seen = {}

    def la(name, args, kw):
        if name != 'qr':
            return NotImplemented
        M_ = args[0]
        piv = bool(kw.get('pivoting', False))
        seen['pivoting'] = piv
        R = E.mat('R', n, n)
        for i in range(n):
            for j in range(i):
                R[i, j] = 0 * R[i, j]
        cols = list(range(n))
        if piv:
            swap = E.is_true(np.dot(M_[:, 1], M_[:, 1]) > np.dot(M_[:, 0], M_[:, 0])) if n == 2 else False
            cols = [1, 0] if swap else [0, 1]
        for i in range(n):
            for j in range(i, n):
                E.assume(E.eq(np.dot(R[:, i], R[:, j]), np.dot(M_[:, cols[i]], M_[:, cols[j]])))
        Q = E.mat('Q', n, n)
        mode = kw.get('mode', 'full')
        out = (R,) if mode == 'r' else (Q, R)
        if piv:
            out = out + (SArr.from_flat(cols, (n,), 'i'),)
        return out
    if E.symbolic:
        E.hooks(la=la)
    rank, D = E.get('qr_rank')(A, tol=tol)
    c0 = np.dot(A[:, 0], A[:, 0])
    E.prove(E.eq(D[0] * D[0], c0, tol=1e-9), 'qr_rank:first-diagonal-entry-is-the-norm-of-the-first-column')
    if n == 2:
        c1 = np.dot(A[:, 1], A[:, 1])
        c01 = np.dot(A[:, 0], A[:, 1])
        E.prove(E.eq(D[1] * D[1] * c0, c0 * c1 - c01 * c01, tol=1e-9), 'qr_rank:second-diagonal-entry-is-the-distance-of-the-second-column-from-the-first')
    cnt = sum(E.ite(D[k] > tol, 1, 0) for k in range(n))
    E.prove(rank == cnt, 'qr_rank:rank-counts-diagonal-entries-above-the-tolerance')


def body_proj_init_revert(E, n, improving_call):
    """projections branch of initialise_coordinate_directions, rank-deficient directions: the repair loops try sign flips chosen by
    np.random; a flip that did not raise the rank must leave no trace, so that the directions evaluated depend on the random selectors only
    through WHICH improving flip was found, never through the unsuccessful ones"""
    from ..state import mk_params, mk_objfun, EvalLog
    np = E.np
    log = EvalLog()
    objfun = mk_objfun(E, 1, log)
    params = mk_params(E, n, n + 1, 50)
    x0 = E.vec('x0_', n)
    P = [lambda w: w, lambda w: w]
    big = E.const(10 ** 20)
    xl = E.arr([-big] * n, 'f') if E.symbolic else np.array([-1e20] * n)
    xu = E.arr([big] * n, 'f') if E.symbolic else np.array([1e20] * n)
    C = E.get('Controller')(objfun, (), x0.copy(), E.vec('r0_', 1), 1, xl, xu, P, n + 1, E.const('0.5'), E.const('0.0005'), 1, 1, 50, params, None, False)
    dyk = []

    def dykstra(P_, x, max_iter=100, tol=1e-10):
        out = E.vec('dy%d_' % len(dyk), n)
        dyk.append({'arg': x.copy(), 'out': out, 'qr': len(ranks)})
        return out
    E.patch('dykstra', dykstra)
    ranks = []

    def qr_rank(A, tol=1e-15):
        r = n - 1 if len(ranks) < improving_call else n
        ranks.append(r)
        d = E.vec('diag%d_' % len(ranks), n, lo=0)
        return r, d
    E.patch('qr_rank', qr_rank)
    draws = []

    def rng(kind, size, **kw):
        draws.append(kind)
        if kind == 'randint':
            # the first three selector vectors are arbitrary, later ones select every row (bounded scenario)
            return E.vec('sel%d_' % len(draws), size[0], dtype='i', lo=0, hi=1) if len(draws) <= 3 else np.ones(size, dtype=int)
        return E.vec('nrm%d_' % len(draws), size[0])
    E.hooks(rng=rng)
    E.assume_norms_positive(True)
    try:
        C.initialise_coordinate_directions(1, n, params)
    except RuntimeError:
        E.reach('proj-init-revert:gives-up')
        return
    if len(dyk) < 2 * n or len(log.calls) < n:
        E.reach('proj-init-revert:early-exit')
        return
    xb = C.model.xbase
    orig = [dyk[k]['out'] - xb for k in range(n)]
    final = [dyk[len(dyk) - n + k]['arg'] - xb for k in range(n)]
    tries = dyk[n:len(dyk) - n]
    # the flip (or random replacement) tried immediately before the rank test that reported the improvement
    kept = [t['out'] - xb for t in tries if t['qr'] == improving_call]
    for k in range(n):
        cands = [orig[k]] + kept
        E.prove(E.any([E.all([E.eq(final[k][i], c[i]) for i in range(n)]) for c in cands]),
                'proj-init:unsuccessful-sign-flips-leave-no-trace')
    E.reach('proj-init-revert:checked')


def harnesses(tier, seed):
    hs = outer.outer_harnesses(tier, seed, 'C19') + step.step_harnesses(tier, seed, 'C19') + step.action_harnesses(tier, seed, 'C19') + runstart.start_harnesses(tier, seed, 'C19')
    for h in c09.harnesses(tier, seed):
        if h.name.startswith('prologue['):
            h.home = 'C09'
            h.expect = []
            hs.append(h)
    # (scenarios with rank-deficient projected directions reach the np.random fallback, but no input reproducing a *successful* random
    #  fallback through dfols.solve was found - with exact projectors it needs a degenerate feasible set, where the fallback fails too -
    #  so that is not claimed as a finding; see DESIGN.md)
    for (n, dc) in ([(2, 0)] if tier == 'quick' else [(2, 0), (3, 0)]):
        hs.append(Harness("projections-init-rng[n=%d,rank-deficient-tests=%d]" % (n, dc), 'dfverif.checks.c19', 'body_proj_init_rng', params=dict(n=n, deficient_calls=dc),
                          cfg=core.Cfg(qtimeout_ms=20000, uflin=True), functions=['controller.Controller.initialise_coordinate_directions'],
                          bounds="n=%d, projections branch, direction matrix rank deficient at the first %d rank tests" % (n, dc),
                          assumptions=["dykstra, qr_rank stubbed (arbitrary outputs); symbolic execution only (SymEnv storage subclass), no concrete replay"],
                          nproc=1, replay=False, wall_budget=200, max_paths=3000,
                          expect=['proj-init:random-draws-unused-when-coordinate-directions-are-independent']))
    # rank-deficient projected directions: the repair stages draw from numpy's global generator (replayed through dfols.solve with all
    # options at their defaults; recorded as a known finding, see known_findings.json)
    hs.append(Harness("projections-init-rng[n=2,rank-deficient-tests=3]", 'dfverif.checks.c19', 'body_proj_init_rng', params=dict(n=2, deficient_calls=3),
                      cfg=core.Cfg(qtimeout_ms=20000, uflin=True), functions=['controller.Controller.initialise_coordinate_directions'],
                      bounds="n=2, projections branch, direction matrix reported rank deficient at the first 3 rank tests (both deterministic repair stages fail)",
                      assumptions=["dykstra, qr_rank stubbed (arbitrary outputs); the counterexample is replayed at API level (dfols.solve, defaults, n=3, two half-spaces, x0 on the edge)"],
                      nproc=1, replay='replay_proj_init', wall_budget=90, max_paths=60, expect=['proj-init:no-random-fallback'], expect_exhaustive=False))
    hs.append(Harness("qr_rank[n=2]", 'dfverif.checks.c19', 'body_qr_rank', params=dict(n=2), cfg=core.Cfg(fork_queries=True, qtimeout_ms=15000, portfolio=True, portfolio_s=60, portfolio_logic='QF_NRA'),
                      functions=['util.qr_rank'], bounds="any 2x2 matrix, any tolerance >= 0", assumptions=["scipy.linalg.qr by contract: R upper triangular, R^T R = A^T A (of the column-permuted matrix with non-increasing diagonal if pivoting is requested)"],
                      expect=['qr_rank:rank-counts-diagonal-entries-above-the-tolerance'], nproc=1, wall_budget=120))
    # the caller's dictionary is also out of reach of the option defaults the solver picks once m is known (real solve + real solve_main start)
    from . import c07
    for h in c07.harnesses(tier, seed):
        if h.name.startswith('growing-default[n=2,m=1'):
            h.home = 'C07'
            h.expect = ['C19:growing-default:user_params-not-modified']
            hs.append(h)
    for ic in ((3, 4) if tier == 'quick' else (2, 3, 4, 5, 6)):
        hs.append(Harness("projections-init-revert[n=2,improving-rank-test=%d]" % ic, 'dfverif.checks.c19', 'body_proj_init_revert', params=dict(n=2, improving_call=ic),
                          cfg=core.Cfg(qtimeout_ms=20000, uflin=True), functions=['controller.Controller.initialise_coordinate_directions'],
                          bounds="n=2, projections branch; the direction matrix is reported rank deficient until rank test number %d; first three random selector vectors arbitrary" % ic,
                          assumptions=["dykstra: fresh vector per call; qr_rank: rank by scenario, arbitrary diagonal"], nproc=1, wall_budget=200, max_paths=4000, max_replays=2))
    return hs


def replay_proj_init(params, label, model):
    """API-level replay: a rank-deficient set of projected coordinate directions makes the evaluation points depend on numpy's global RNG"""
    import numpy as np
    import warnings
    import dfols
    if label != 'proj-init:no-random-fallback':
        return False, 'no replay for this label'
    seqs = []
    hs_ = lambda a, b: (lambda x: x - (max(np.dot(a, x) - b, 0.0) / np.dot(a, a)) * a)
    for seed in (0, 1, 2):
        np.random.seed(seed)
        pts = []

        def r(x):
            pts.append(x.copy())
            return np.array([x[0] + 1.0, x[1] + 2.0, x[2] - 0.5])
        with warnings.catch_warnings():
            warnings.simplefilter('ignore')
            try:
                # all options at their defaults; feasible set {x2 <= x1 <= 0} as two half-space projections, x0 = 0 on its edge:
                # the projected coordinate directions are rank deficient and neither deterministic repair stage restores the rank
                dfols.solve(r, np.zeros(3), projections=[hs_(np.array([1.0, 0.0, 0.0]), 0.0), hs_(np.array([-1.0, 1.0, 0.0]), 0.0)], maxfun=40, do_logging=False)
            except Exception as e:     # noqa
                pts.append(np.array([np.nan, np.nan, np.nan]))
        seqs.append(np.array(pts))
    if seqs[0].shape == seqs[1].shape and np.array_equal(seqs[0], seqs[1], equal_nan=True):
        seqs[1] = seqs[2]
    same = seqs[0].shape == seqs[1].shape and np.array_equal(seqs[0], seqs[1], equal_nan=True)
    return (not same), 'evaluation sequences under np.random.seed(0) / seed(1): %s' % ('identical' if same else 'different')


def run(tier, seed):
    return run_property(
        'C19', harnesses(tier, seed), tier, seed,
        explanation="Ownership-tracking symbolic execution (z3) of the real solve prologue/epilogue on caller-owned arrays, and RNG-reachability "
                    "obligations in STEP and RUN-START: a random generator is reached only on paths where an option documented as random is on.")
