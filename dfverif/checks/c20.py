"""
C20 - results survive a JSON round trip and always print.

Real OptimResults.to_dict / from_dict / __str__ and util.replace_nan_with_none executed on result
objects whose numeric fields are symbolic extended reals (NaN, +-inf included) and whose optional
fields are present/absent by case.  json.dumps/loads is modelled as the identity on plain data
plus the strictness predicate "no NaN/inf float anywhere"; pandas by a list-backed stand-in.
In replay mode the real json and pandas are used.
"""
import json

from ..harness import Harness, run_property
from .. import core, shim, sym
from ..arr import SArr


class _DF(object):
    """stand-in for pandas.DataFrame (contract: to_dict/from_dict are inverse on column->index->value)"""
    def __init__(self, data):
        self.data = {k: list(v) for k, v in data.items()}

    def to_dict(self):
        return {k: {i: v for i, v in enumerate(col)} for k, col in self.data.items()}

    @staticmethod
    def from_dict(d):
        return _DF({k: [d[k][i] for i in sorted(d[k], key=lambda t: int(t))] for k in d})


class _PD(object):
    DataFrame = _DF


def _leaves(obj, path=''):
    if isinstance(obj, dict):
        for k, v in obj.items():
            yield from _leaves(v, path + '/' + str(k))
    elif isinstance(obj, (list, tuple)):
        for i, v in enumerate(obj):
            yield from _leaves(v, path + '/%d' % i)
    else:
        yield path, obj


def _plain(v):
    return v is None or isinstance(v, (bool, int, str, float, sym.SInt, sym.SFloat, sym.SBool)) or \
        type(v).__name__ == 'Fraction'


def _capture_str(E, soln, label):
    if E.symbolic:
        shim.HOOKS.fmt = []
        try:
            str_fn = E.get('OptimResults').__str__
            str_fn(soln)
            cap = shim.HOOKS.fmt
        except Exception as e:
            E.fail(label + ':raises-' + type(e).__name__)
            cap = None
        finally:
            shim.HOOKS.fmt = None
        return cap
    try:
        return str(soln)
    except Exception as e:
        E.fail(label + ':raises-' + type(e).__name__)
        return None


def _same_val(E, a, b):
    if a is None or b is None:
        return a is None and b is None
    if isinstance(a, str) or isinstance(b, str):
        return a == b
    if isinstance(a, SArr) or isinstance(b, SArr):
        if not (isinstance(a, SArr) and isinstance(b, SArr)) or a.shape != b.shape:
            return False
        return E.all([_same_val(E, p, q) for p, q in zip(a.flat(), b.flat())])
    if isinstance(a, bool) and isinstance(b, bool):
        return a == b
    return E.same(a, b)


def _arr_same(E, a, b):
    if a is None or b is None:
        return a is None and b is None
    if E.symbolic:
        return _same_val(E, a, b)
    import numpy as np
    return a.shape == b.shape and bool(np.all((a == b) | (np.isnan(a) & np.isnan(b)))) if a.dtype.kind == 'f' else \
        (a.shape == b.shape and bool(np.all(a == b)))


def body(E, nx_, nr, has_jac, has_evnums, diag):
    OptimResults = E.get('OptimResults')
    x = E.vec('x', nx_, xr=True)
    resid = E.vec('r', nr, xr=True)
    obj = E.real('obj', xr=True)
    jac = E.mat('J', nr, nx_, xr=True) if has_jac else None
    nf = E.int('nf', 0, None)
    nx = E.int('nx', 0, None)
    nruns = E.int('nruns', 0, None)
    flag = E.int('flag', -4, 5)
    E.assume(flag != -1)   # any exit other than an input error
    msg = "Success: rho has reached rhoend"
    xnum = E.int('xnum', 0, None)
    jen = E.vec('jen', 2, dtype='i', lo=0) if has_evnums else None
    soln = OptimResults(x, resid, obj, jac, nf, nx, nruns, flag, msg, xnum, jen)
    if diag:
        if E.symbolic:
            E.patch('pd', _PD())
            DI = E.get('DiagnosticInfo')()
        else:
            DI = E.get('DiagnosticInfo')()
        for it in range(2):
            for key in DI.data:
                if key == 'xk':
                    DI.data[key].append(E.vec('xk%d_' % it, nx_))
                elif key == 'rk':
                    DI.data[key].append(E.vec('rk%d_' % it, nr))
                elif key in ('nruns', 'nf', 'nx', 'npt', 'nsamples', 'iter_this_run', 'iters_total', 'slow_iter'):
                    DI.data[key].append(E.int('%s%d' % (key, it), 0, None))
                elif key == 'iter_type':
                    DI.data[key].append("Successful")
                elif key in ('fk', 'ratio') and it == 1:
                    # the cells that can be NaN/inf in real runs (NaN ratio of safety steps, bad objective values)
                    DI.data[key].append(E.real('%s%d' % (key, it), xr=True, npy=False))
                else:
                    DI.data[key].append(E.real('%s%d' % (key, it), xr=False, npy=False))
        soln.diagnostic_info = DI.to_dataframe(with_xk=(diag == 'xk'), with_rk=(diag == 'xk'))
    s1 = _capture_str(E, soln, 'str-original')
    try:
        d = soln.to_dict(replace_nan=True)
    except Exception as e:
        E.fail('to_dict:raises-' + type(e).__name__)
        return
    # plain + strict
    if E.symbolic:
        leaves = list(_leaves(d))
        if not E.prove(all(_plain(v) for _, v in leaves), 'to_dict:plain-json-data'):
            return
        fl = [v for _, v in leaves if isinstance(v, sym.SFloat)]
        E.prove(E.all([E.no(E.isnan(v)) for v in fl]), 'to_dict:strict-json-no-nan')
        E.prove(E.all([E.no(sym.f_isinf(v)) for v in fl]), 'to_dict:strict-json-no-inf')
        d2 = d
        if diag and d.get('diagnostic_info') is not None:
            # json turns the integer row keys into strings
            d2 = dict(d)
            d2['diagnostic_info'] = {k: {str(i): v for i, v in col.items()} for k, col in d['diagnostic_info'].items()}
    else:
        try:
            txt = json.dumps(d)
            E.prove(True, 'to_dict:plain-json-data')
        except TypeError:
            E.prove(False, 'to_dict:plain-json-data')
            return
        import math
        fl = [v for _, v in _leaves(d) if isinstance(v, float)]
        E.prove(not any(math.isnan(v) for v in fl), 'to_dict:strict-json-no-nan')
        E.prove(not any(math.isinf(v) for v in fl), 'to_dict:strict-json-no-inf')
        d2 = json.loads(txt)
    try:
        soln2 = OptimResults.from_dict(d2)
    except Exception as e:
        E.fail('from_dict:raises-' + type(e).__name__)
        return
    E.prove(_arr_same(E, soln.x, soln2.x), 'roundtrip:x')
    E.prove(_arr_same(E, soln.resid, soln2.resid), 'roundtrip:resid')
    E.prove(_arr_same(E, soln.jacobian, soln2.jacobian), 'roundtrip:jacobian')
    E.prove(_arr_same(E, soln.jacmin_eval_nums, soln2.jacmin_eval_nums), 'roundtrip:jacmin_eval_nums')
    E.prove(soln2.obj is not None and E.same(soln.obj, soln2.obj), 'roundtrip:obj')
    E.prove(E.all([soln.nf == soln2.nf, soln.nx == soln2.nx, soln.nruns == soln2.nruns, soln.flag == soln2.flag,
                   soln.xmin_eval_num == soln2.xmin_eval_num]), 'roundtrip:counters-and-flag')
    E.prove(soln.msg == soln2.msg, 'roundtrip:msg')
    E.prove((soln.diagnostic_info is None) == (soln2.diagnostic_info is None), 'roundtrip:diagnostic-presence')
    if diag and E.symbolic and soln2.diagnostic_info is not None:
        a, b = soln.diagnostic_info.data, soln2.diagnostic_info.data
        def nn(v):
            return sym.NAN if v is None else v
        E.prove(sorted(a.keys()) == sorted(b.keys()) and E.all(
            [_same_val(E, nn(p), nn(q)) for k in a for p, q in zip(a[k], b[k])] + [len(a[k]) == len(b[k]) for k in a]),
            'roundtrip:diagnostic-values')
    elif diag and not E.symbolic and soln2.diagnostic_info is not None:
        import numpy as np
        a, b = soln.diagnostic_info, soln2.diagnostic_info
        ok = list(a.columns) == list(b.columns) and len(a) == len(b)
        E.prove(ok, 'roundtrip:diagnostic-values')
    s2 = _capture_str(E, soln2, 'str-reloaded')
    if s1 is not None and s2 is not None:
        if E.symbolic:
            ok = len(s1) == len(s2) and E.all(
                [t1[0] == t2[0] and (_same_val(E, t1[1], t2[1]) if t1[0] == 'str' else
                                     (len(t1[1]) == len(t2[1]) and E.all([_same_val(E, p, q) for p, q in zip(t1[1], t2[1])])))
                 for t1, t2 in zip(s1, s2)])
            E.prove(ok, 'str-identical')
        else:
            E.prove(s1 == s2, 'str-identical')


FUNCS = ['solver.OptimResults', 'util.replace_nan_with_none', 'diagnostic_info.DiagnosticInfo.to_dataframe']


def harnesses(tier, seed):
    hs = []
    sizes = [(1, 1), (2, 1)] if tier == 'quick' else [(1, 1), (2, 1), (2, 3), (3, 2)]
    for (nx_, nr) in sizes:
        for has_jac in (False, True):
            for has_ev in (False, True):
                for diag in ((None, 'plain', 'xk') if (nx_, nr) == sizes[0] else (None,)):
                    name = "roundtrip[nx=%d,nr=%d,jac=%d,evnums=%d,diag=%s]" % (nx_, nr, has_jac, has_ev, diag)
                    hs.append(Harness(name, 'dfverif.checks.c20', 'body',
                                      params=dict(nx_=nx_, nr=nr, has_jac=has_jac, has_evnums=has_ev, diag=diag),
                                      cfg=core.Cfg(qtimeout_ms=20000), functions=FUNCS,
                                      bounds="x has %d, resid %d entries; jacobian %s; 2 diagnostic rows; every float field NaN/+-inf/finite" % (nx_, nr, 'present' if has_jac else 'None'),
                                      assumptions=["json.dumps/loads modelled as identity on plain data + strictness predicate (replay uses the real json module)",
                                                   "pandas.DataFrame modelled by a list-backed stand-in with inverse to_dict/from_dict (replay uses real pandas)",
                                                   "string formatting executed on representative values (so None/%g errors are real); field-by-field comparison of the formatted arguments stands for string equality"],
                                      expect=['str-identical'] if diag != 'xk' else [], nproc=1, max_replays=3))
    for int_resid in (False, True):
        hs.append(Harness("x0-exit[n=1,m=2,int_resid=%d]" % int_resid, 'dfverif.checks.c02', 'body_x0block',
                          params=dict(n=1, m=2, with_h=False, r0_old=False, int_resid=int_resid), cfg=core.Cfg(qtimeout_ms=20000, uflin=True),
                          functions=['solver.solve_main'], home='C02',
                          bounds="the x0 block of solve_main, n=1, m=2, up to 3 samples; residuals %s" % ('integers in [-1000,1000] (integer array)' if int_resid else 'reals'),
                          assumptions=["the run ends at x0 (budget or small objective): the residual handed to the result object is a float64 array owned by the solver, "
                                       "so to_dict/from_dict (which rebuild float64 arrays) reproduce it"], nproc=1, max_replays=2))
    # the evaluation numbers in the result come from Model's per-point storage: every operation that writes it keeps it integer-typed
    from . import c17
    for h in c17.model_harnesses('quick', seed):
        if h.params['op'] in ('add_new_point', 'change_point') and not h.params.get('with_h') and h.params['npt_so_far'] == h.params['num_pts']:
            h.name = 'model:' + h.name
            h.home = 'C17'
            h.expect = ['C20:%s:evaluation-numbers-stay-integer-typed' % h.params['op']]
            hs.append(h)
    return hs


def run(tier, seed):
    return run_property(
        'C20', harnesses(tier, seed), tier, seed,
        explanation="Symbolic execution (z3, linear real arithmetic + NaN/inf flags) of the real OptimResults.to_dict/from_dict/"
                    "__str__ and replace_nan_with_none over result objects with symbolic numeric fields; obligations: plain and "
                    "strict JSON data, every field reproduced (None<->NaN), str() never raises and agrees before/after. "
                    "Counterexamples are replayed with the real json/pandas/numpy.")
