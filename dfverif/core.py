"""
Path explorer for symbolic execution of the real dfols source by re-execution
(decision-prefix replay), with z3 as the deciding engine.

One *path* = one execution of a harness body under a `Path` object (module global CUR).
Symbolic booleans ask `CUR.decide(term)`; both polarities are checked against the path
condition; if both are feasible the alternative prefix is queued.  `prove(cond)` asks
pc and not cond.  Solver queries can run in a forked child with a hard kill deadline
(z3's NRA/FP engines were seen to ignore their soft timeout).
"""
import os
import sys
import time
import json
import select
import signal
import struct
import pickle
import traceback
import importlib
from fractions import Fraction

import z3

CUR = None  # the current Path
PROFILE = bool(os.environ.get('DFVERIF_PROFILE'))


def _where():
    f = sys._getframe(2)
    while f is not None:
        fn = f.f_code.co_filename
        if '/dfols/' in fn or fn.endswith('step.py') or fn.endswith('state.py') or '/checks/' in fn or fn.endswith('outer.py'):
            return "%s:%d" % (os.path.basename(fn), f.f_lineno)
        f = f.f_back
    return '?'


class PathAbort(BaseException):
    """Control-flow exception (BaseException so that dfols' own `except ...` cannot swallow it)."""
    def __init__(self, kind, msg=""):
        super().__init__(kind, msg)
        self.kind = kind
        self.msg = msg


class Cfg(object):
    def __init__(self, **kw):
        self.fork_queries = False      # run each query in a forked child (NRA / FP)
        self.qtimeout_ms = 10000       # soft timeout per query
        self.max_depth = 4000          # decisions per path
        self.uflin = False             # abstract symbolic*symbolic products as UF + sign axioms
        self.ite_minmax = True         # builtin min/max as ITE terms instead of forks
        self.path_deadline_s = 600     # hard limit per path (worker gets killed)
        self.logic = None
        self.portfolio = False         # on `unknown` in prove(): re-ask /usr/bin/z3 4.8.12, z3 5.1 CLI and cvc5 1.4 on the SMT-LIB2 dump
        self.portfolio_s = 60
        self.portfolio_logic = None
        self.crosscheck_rate = 0.0     # fraction of discharged obligations re-decided by the portfolio (thorough tier)
        self.seed = 0
        self.home = None               # property that owns the un-prefixed obligation labels of this harness body
        self.pid = None                # property being decided: obligations labelled 'Cxx:...' of other properties are skipped
        self.refine_ms = 6000          # NRA budget for refining a counterexample found under the UF abstraction
        self.true_first = True
        self.tactic = None
        self.nra_first_ms = 0          # forked queries: try a fresh SolverFor('QF_NRA') for this long before the incremental solver
        for k, v in kw.items():
            if not hasattr(self, k):
                raise KeyError(k)
            setattr(self, k, v)


def val_to_py(v):
    """z3 model value -> python (Fraction / int / bool / str)."""
    if z3.is_int_value(v):
        return v.as_long()
    if z3.is_rational_value(v):
        return Fraction(v.numerator_as_long(), v.denominator_as_long())
    if z3.is_algebraic_value(v):
        a = v.approx(30)
        return Fraction(a.numerator_as_long(), a.denominator_as_long())
    if z3.is_true(v):
        return True
    if z3.is_false(v):
        return False
    if z3.is_fp(v) or isinstance(v, z3.FPNumRef):
        return fp_to_hex(v)
    return str(v)


def fp_to_hex(v):
    """z3 FPNumRef (binary64) -> float hex string (or 'nan', 'inf', '-inf')."""
    try:
        if v.isNaN():
            return 'nan'
        if v.isInf():
            return '-inf' if v.isNegative() else 'inf'
        bv = z3.simplify(z3.fpToIEEEBV(v))
        bits = bv.as_long()
        import struct as _s
        f = _s.unpack('>d', _s.pack('>Q', bits))[0]
        return f.hex()
    except Exception:
        return str(v)


class Path(object):
    def __init__(self, cfg, prefix):
        self.cfg = cfg
        self.prefix = list(prefix)
        self.pos = 0
        self.trace = []
        self.solver = z3.SolverFor(cfg.logic) if cfg.logic else z3.Solver()
        if not cfg.fork_queries:
            self.solver.set("timeout", int(cfg.qtimeout_ms))
        self.pending = []
        self.obls = []
        self.nq = 0
        self.solver_s = 0.0
        self.kills = 0
        self.unknowns = 0
        self.counters = {}
        self.inputs = {}       # name -> z3 term (reported in counterexamples)
        self.decided = {}      # ast id -> (bool, term)
        self.notes = []
        self.events = []       # harness-level events (e.g. evaluation log)
        self.inconclusive = False
        self.last_model = None
        self.reached = set()
        self.ghost = {}
        self.ndec = 0
        self.nrefine = 0
        self.exact = []        # exact meanings of abstracted (UF) operations, used to refine counterexamples
        self.pid = getattr(cfg, 'pid', None)

    # ---- naming -------------------------------------------------------------------
    def fresh_name(self, base):
        k = self.counters.get(base, 0)
        self.counters[base] = k + 1
        return "%s!%d" % (base, k) if k else base

    def register_input(self, name, term):
        self.inputs[name] = term

    # ---- solver -------------------------------------------------------------------
    def add(self, term):
        self.solver.add(term)

    def _check_inproc(self, extra, eval_terms):
        r = self.solver.check(*extra)
        rs = str(r)
        vals = None
        model = None
        if rs == 'sat':
            model = self.solver.model()
            if eval_terms is not None:
                vals = [val_to_py(model.eval(t, model_completion=True)) for t in eval_terms]
        return rs, vals, model

    def _check_forked(self, extra, eval_terms):
        rfd, wfd = os.pipe()
        pid = os.fork()
        if pid == 0:
            try:
                os.close(rfd)
                if self.cfg.logic:
                    # a fresh, non-incremental solver: z3 then applies its logic-specific tactics (bit-blasting for QF_FP)
                    # instead of the incremental core that check-with-assumptions would use (measured: 1-17 s vs minutes)
                    s2 = z3.SolverFor(self.cfg.logic)
                    s2.add(self.solver.assertions())
                    for e in extra:
                        s2.add(e)
                    extra = []
                else:
                    s2 = self.solver
                r = 'unknown'
                if not self.cfg.logic and self.cfg.nra_first_ms:
                    # first a fresh solver built for QF_NRA (nlsat on the whole goal): measured 0.1 s where the incremental default
                    # core needs 12 s or answers unknown, on the sqrt-laden goals of trsbox; the incremental solver is the fallback
                    try:
                        s3 = z3.SolverFor('QF_NRA')
                        s3.add(self.solver.assertions())
                        for e in extra:
                            s3.add(e)
                        s3.set("timeout", int(self.cfg.nra_first_ms))
                        r = str(s3.check())
                        if r in ('sat', 'unsat'):
                            s2 = s3
                    except z3.Z3Exception:
                        r = 'unknown'
                if r == 'unknown':
                    s2.set("timeout", int(self.cfg.qtimeout_ms))
                    r = str(s2.check(*extra))
                vals = None
                if r == 'sat' and eval_terms is not None:
                    m = s2.model()
                    vals = [val_to_py(m.eval(t, model_completion=True)) for t in eval_terms]
                data = pickle.dumps((r, vals))
                os.write(wfd, struct.pack('>I', len(data)) + data)
            except BaseException:
                try:
                    data = pickle.dumps(('unknown', None))
                    os.write(wfd, struct.pack('>I', len(data)) + data)
                except BaseException:
                    pass
            finally:
                os._exit(0)
        os.close(wfd)
        deadline = time.time() + 1.5 * self.cfg.qtimeout_ms / 1000.0 + 1.0 + 1.2 * self.cfg.nra_first_ms / 1000.0
        buf = b''
        res = None
        try:
            while True:
                left = deadline - time.time()
                if left <= 0:
                    break
                r, _, _ = select.select([rfd], [], [], left)
                if not r:
                    break
                chunk = os.read(rfd, 1 << 16)
                if not chunk:
                    break
                buf += chunk
                if len(buf) >= 4:
                    n = struct.unpack('>I', buf[:4])[0]
                    if len(buf) >= 4 + n:
                        res = pickle.loads(buf[4:4 + n])
                        break
        finally:
            os.close(rfd)
        if res is None:
            try:
                os.kill(pid, signal.SIGKILL)
            except OSError:
                pass
            self.kills += 1
            res = ('unknown', None)
        try:
            os.waitpid(pid, 0)
        except OSError:
            pass
        return res[0], res[1], None

    def check(self, extra=(), eval_terms=None):
        t0 = time.time()
        self.nq += 1
        if self.cfg.fork_queries:
            rs, vals, model = self._check_forked(list(extra), eval_terms)
        else:
            rs, vals, model = self._check_inproc(list(extra), eval_terms)
        self.solver_s += time.time() - t0
        if rs == 'unknown':
            self.unknowns += 1
        return rs, vals, model

    # ---- decisions ------------------------------------------------------------------
    def _commit(self, term, choice, forced):
        if PROFILE:
            self.notes.append('T%d %s %s %s' % (len(self.trace), choice, forced, _where()))
        self.trace.append(('d', bool(choice), bool(forced)))
        t = term if choice else z3.Not(term)
        self.solver.add(t)
        self.decided[term.get_id()] = (bool(choice), term)

    def decide(self, term):
        term = z3.simplify(term)
        if z3.is_true(term):
            return True
        if z3.is_false(term):
            return False
        # Every non-constant decision produces exactly one trace entry - cache hits included - so that a replayed prefix
        # stays in step even though z3's simplifier may order arguments differently from run to run (AST ids).
        self.ndec += 1
        if self.ndec > self.cfg.max_depth:
            raise PathAbort('depth', 'more than %d decisions' % self.cfg.max_depth)
        if self.pos < len(self.prefix):
            ent = self.prefix[self.pos]
            self.pos += 1
            if ent[0] != 'd':
                raise PathAbort('desync', 'expected decision, prefix has %r' % (ent,))
            self._commit(term, ent[1], ent[2])
            self.last_model = None
            return ent[1]
        hit = self.decided.get(term.get_id())
        if hit is None and z3.is_not(term):
            h2 = self.decided.get(term.arg(0).get_id())
            if h2 is not None:
                hit = (not h2[0], term)
        if hit is not None:
            self.trace.append(('d', bool(hit[0]), True))
            return hit[0]
        # new decision
        guess = None
        if self.last_model is not None:
            try:
                g = self.last_model.eval(term, model_completion=True)
                if z3.is_true(g):
                    guess = True
                elif z3.is_false(g):
                    guess = False
            except z3.Z3Exception:
                guess = None
        if guess is None:
            rt, _, mt = self.check([term])
            rf, _, mf = self.check([z3.Not(term)])
        elif guess:
            rt, mt = 'sat', self.last_model
            rf, _, mf = self.check([z3.Not(term)])
        else:
            rf, mf = 'sat', self.last_model
            rt, _, mt = self.check([term])
        if rt == 'unknown' or rf == 'unknown':
            self.inconclusive = True
        t_ok = rt != 'unsat'
        f_ok = rf != 'unsat'
        if not t_ok and not f_ok:
            raise PathAbort('infeasible', 'path condition unsatisfiable')
        if t_ok and f_ok:
            if PROFILE:
                self.notes.append('fork@' + _where())
            first = self.cfg.true_first
            alt = list(self.trace) + [('d', not first, False)]
            self.pending.append(alt)
            self._commit(term, first, False)
            self.last_model = mt if first else mf
            return first
        choice = t_ok
        self._commit(term, choice, True)
        self.last_model = mt if choice else mf
        return choice

    def pick_int(self, term):
        """Concretise an Int term: fork over its feasible values."""
        term = z3.simplify(term)
        if z3.is_int_value(term):
            return term.as_long()
        while True:
            if self.pos < len(self.prefix):
                ent = self.prefix[self.pos]
                self.pos += 1
                if ent[0] != 'v':
                    raise PathAbort('desync', 'expected value pick, prefix has %r' % (ent,))
                v = ent[1]
                if PROFILE:
                    self.notes.append('T%d pick(replay) %s %s' % (len(self.trace), v, _where()))
                self.trace.append(ent)
            else:
                rs, vals, _ = self.check([], eval_terms=[term])
                if rs != 'sat':
                    if rs == 'unknown':
                        self.inconclusive = True
                        raise PathAbort('unknown', 'cannot concretise int (solver unknown)')
                    raise PathAbort('infeasible', 'path condition unsatisfiable')
                v = vals[0]
                if PROFILE:
                    self.notes.append('T%d pick %s %s' % (len(self.trace), v, _where()))
                self.trace.append(('v', v))
                self.last_model = None
            if self.decide(term == v):
                return v

    # ---- assumptions / obligations ----------------------------------------------------
    def assume(self, term, check=True):
        if isinstance(term, bool):
            if not term:
                raise PathAbort('infeasible', 'assume(False)')
            return
        term = z3.simplify(term)
        if z3.is_true(term):
            return
        self.solver.add(term)
        if self.last_model is not None:
            try:
                if not z3.is_true(self.last_model.eval(term, model_completion=True)):
                    self.last_model = None
            except z3.Z3Exception:
                self.last_model = None
        if check and self.pos >= len(self.prefix):
            if self.last_model is None:
                rs, _, m = self.check([])
                if rs == 'unsat':
                    raise PathAbort('infeasible', 'assumption unsatisfiable')
                if rs == 'unknown':
                    self.inconclusive = True
                self.last_model = m

    def axiom(self, term):
        """A valid fact about an abstracted operation (no feasibility check)."""
        self.solver.add(term)
        if self.last_model is not None:
            try:
                if not z3.is_true(self.last_model.eval(term, model_completion=True)):
                    self.last_model = None
            except z3.Z3Exception:
                self.last_model = None

    def prove(self, term, label, detail=None, extra_eval=None):
        """Obligation: pc => term.  Returns True if discharged."""
        if self.pid is not None:
            own = label[:3] if (len(label) > 4 and label[0] == 'C' and label[3] == ':') else (self.cfg.home or self.pid)
            if own != self.pid:
                return True
        self.reached.add(label)
        if isinstance(term, bool):
            if term:
                self.obls.append({'label': label, 'result': 'discharged', 'trivial': True})
                return True
            term = z3.BoolVal(False)
        term = z3.simplify(term)
        if z3.is_true(term):
            self.obls.append({'label': label, 'result': 'discharged', 'trivial': True})
            return True
        names = list(self.inputs.keys())
        terms = [self.inputs[k] for k in names]
        xnames = []
        if extra_eval:
            for k, t in extra_eval.items():
                xnames.append(k)
                terms.append(t)
        rs, vals, _ = self.check([z3.Not(term)], eval_terms=terms)
        if rs == 'unknown' and self.cfg.portfolio:
            r2 = self._portfolio([z3.Not(term)])
            if r2 == 'unsat':
                rs = 'unsat'
                self.unknowns -= 1
                self.notes.append('discharged by portfolio: ' + label)
        rec = {'label': label}
        if detail is not None:
            rec['detail'] = detail
        if rs == 'unsat':
            rec['result'] = 'discharged'
            if self.cfg.crosscheck_rate and not self.cfg.portfolio:
                # second opinion on a sample of discharged obligations (other z3 version, cvc5): a `sat` from any of them is a harness error
                import zlib
                hsh = zlib.crc32(("%s|%d|%d|%s|%d" % (label, len(self.obls), self.nq, "".join("T" if t[1] else "F" for t in self.trace if t[0] == "d")[-40:], self.cfg.seed)).encode()) % 100000
                if hsh < self.cfg.crosscheck_rate * 100000:
                    self.last_portfolio = []
                    self._portfolio([z3.Not(term)])
                    self.notes.append('crosschecked:' + ','.join(self.last_portfolio or ['none']))
                    if 'sat' in (self.last_portfolio or []):
                        self.notes.append('SOLVER DISAGREEMENT: %s discharged by z3 %s but sat for a portfolio member' % (label, z3.get_version_string()))
        elif rs == 'sat':
            refined = None
            if self.cfg.uflin and self.exact and self.nrefine < 3:
                self.nrefine += 1
                refined = self._refine(term, terms)
            if refined is not None and refined[0] == 'unsat':
                rec['result'] = 'discharged'
                rec['refined'] = True
                self.obls.append(rec)
                return True
            if refined is not None and refined[0] == 'sat':
                vals = refined[1]
                rec['refined'] = True
            rec['result'] = 'cex'
            rec['model'] = dict(zip(names + xnames, vals))
            rec['trace'] = list(self.trace)
        else:
            rec['result'] = 'unknown'
            self.inconclusive = True
            dd = os.environ.get('DFVERIF_DUMP_UNKNOWN')     # development aid
            if dd:
                s3 = z3.Solver()
                s3.add(self.solver.assertions())
                s3.add(z3.Not(term))
                with open(os.path.join(dd, '%s-%d-%d.smt2' % (label.replace(':', '_').replace('/', '_'), os.getpid(), len(self.obls))), 'w') as f_:
                    f_.write(s3.to_smt2())
        self.obls.append(rec)
        return rs == 'unsat'

    def _portfolio(self, extra):
        """second chance for an `unknown`: other engines on the SMT-LIB2 dump; only `unsat` is used (discharge)"""
        import subprocess
        import tempfile
        s2 = z3.Solver()
        s2.add(self.solver.assertions())
        for e in extra:
            s2.add(e)
        txt = s2.to_smt2()
        t = max(5, int(self.cfg.portfolio_s))
        fd, fn = tempfile.mkstemp(suffix='.smt2', prefix='dfverif-')
        try:
            with os.fdopen(fd, 'w') as f:
                f.write(txt)
            cmds = []
            logic = self.cfg.portfolio_logic
            if logic:
                fn2 = fn + '.logic.smt2'
                with open(fn2, 'w') as f:
                    f.write("(set-logic %s)\n" % logic + txt)
            else:
                fn2 = fn
            cmds.append(['/usr/bin/z3', '-T:%d' % t, fn2])
            cmds.append(['z3-new', '-T:%d' % t, fn2])
            cvc = os.path.join(os.path.dirname(sys.executable), 'python')
            cmds.append([cvc, '-m', 'dfverif.cvc5run', fn2, str(t)])
            procs = []
            for c in cmds:
                try:
                    procs.append(subprocess.Popen(c, stdout=subprocess.PIPE, stderr=subprocess.DEVNULL, text=True,
                                                  env=dict(os.environ, PYTHONPATH=os.path.dirname(os.path.dirname(os.path.abspath(__file__))))))
                except OSError:
                    pass
            deadline = time.time() + t + 5
            verdicts = []
            pending = list(procs)
            while pending and time.time() < deadline:
                for pr in list(pending):
                    if pr.poll() is not None:
                        out = (pr.stdout.read() or '').strip().splitlines()
                        pending.remove(pr)
                        if out and '(error' not in ' '.join(out):
                            verdicts.append(out[0].strip())
                if 'unsat' in verdicts or 'sat' in verdicts:
                    break
                time.sleep(0.05)
            for pr in pending:
                try:
                    pr.kill()
                except OSError:
                    pass
            self.nq += 1
            self.last_portfolio = list(verdicts)
            if 'unsat' in verdicts and 'sat' not in verdicts:
                return 'unsat'
            if 'sat' in verdicts and 'unsat' in verdicts:
                self.notes.append('SOLVER DISAGREEMENT in portfolio')
            return 'unknown'
        finally:
            for f_ in (fn, fn + '.logic.smt2'):
                try:
                    os.unlink(f_)
                except OSError:
                    pass

    def _refine(self, term, terms):
        """re-ask pc and not term with the exact (nonlinear) meaning of every abstracted operation, in a forked child"""
        old_fork, old_to = self.cfg.fork_queries, self.cfg.qtimeout_ms
        self.cfg.fork_queries, self.cfg.qtimeout_ms = True, self.cfg.refine_ms
        try:
            rs, vals, _ = self.check([z3.Not(term)] + list(self.exact), eval_terms=terms)
        finally:
            self.cfg.fork_queries, self.cfg.qtimeout_ms = old_fork, old_to
        if rs == 'unknown':
            self.unknowns -= 1
            return None
        return rs, vals

    def fail(self, label, detail=None, extra_eval=None):
        """An unconditional violation on this path (e.g. a forbidden exception): get a model of pc."""
        return self.prove(z3.BoolVal(False), label, detail=detail, extra_eval=extra_eval)

    def reach(self, label):
        self.reached.add(label)

    def note(self, s):
        self.notes.append(s)


# ---------------------------------------------------------------------------------------
# running one path

def _jsonable(x):
    if isinstance(x, Fraction):
        return {'frac': [str(x.numerator), str(x.denominator)], 'float': float(x)}
    if isinstance(x, dict):
        return {str(k): _jsonable(v) for k, v in x.items()}
    if isinstance(x, (list, tuple)):
        return [_jsonable(v) for v in x]
    if isinstance(x, (int, float, str, bool)) or x is None:
        return x
    return str(x)


def run_path(target, cfg, prefix, want_witness=False):
    """target = (module, function, kwargs).  Returns a picklable result dict."""
    global CUR
    mod = importlib.import_module(target[0])
    fn = getattr(mod, target[1])
    kwargs = target[2] if len(target) > 2 else {}
    p = Path(cfg, prefix)
    CUR = p
    t0 = time.time()
    status = 'ok'
    info = None
    try:
        fn(**kwargs)
    except PathAbort as e:
        status = 'abort:' + e.kind
        info = e.msg
    except RecursionError as e:
        status = 'abort:recursion'
        info = str(e)
    except Exception as e:
        # An exception escaping the harness body itself is a harness error (the harness is
        # expected to catch and judge exceptions of the code under test).
        status = 'error'
        info = ''.join(traceback.format_exception(type(e), e, e.__traceback__))[-3000:]
    witness = None
    if want_witness and status == 'ok':
        # one concrete member of this path's input class, for the evidence samples
        try:
            CUR = p
            names = list(p.inputs.keys())[:40]
            rs, vals, _ = p.check([], eval_terms=[p.inputs[k] for k in names])
            if rs == 'sat':
                witness = dict(zip(names, vals))
            elif rs == 'unknown':
                p.unknowns -= 1          # (a witness is informational, not an obligation)
        except BaseException:
            witness = None
    CUR = None
    return {
        'status': status, 'info': info, 'pending': p.pending, 'obls': p.obls, 'witness': witness,
        'nq': p.nq, 'solver_s': p.solver_s, 'kills': p.kills, 'unknowns': p.unknowns,
        'trace': p.trace, 'notes': p.notes, 'inconclusive': p.inconclusive,
        'reached': sorted(p.reached), 'wall': time.time() - t0, 'ndec': p.ndec,
        'events': p.events,
    }


# ---------------------------------------------------------------------------------------
# worker pool with hard per-path deadline

class _Worker(object):
    def __init__(self, target, cfg):
        self.target = target
        self.cfg = cfg
        self.spawn()

    def spawn(self):
        pr, cw = os.pipe()   # child -> parent
        cr, pw = os.pipe()   # parent -> child
        pid = os.fork()
        if pid == 0:
            os.close(pr)
            os.close(pw)
            try:
                _worker_loop(cr, cw, self.target, self.cfg)
            finally:
                os._exit(0)
        os.close(cw)
        os.close(cr)
        self.pid = pid
        self.rfd = pr
        self.wfd = pw
        self.busy = None
        self.buf = b''
        self.started = None

    def send(self, prefix, want_witness=False):
        data = pickle.dumps((prefix, want_witness))
        os.write(self.wfd, struct.pack('>I', len(data)) + data)
        self.busy = prefix
        self.started = time.time()
        self.buf = b''

    def kill(self):
        try:
            os.kill(self.pid, signal.SIGKILL)
        except OSError:
            pass
        try:
            os.waitpid(self.pid, 0)
        except OSError:
            pass
        for fd in (self.rfd, self.wfd):
            try:
                os.close(fd)
            except OSError:
                pass


def _read_exact(fd, n):
    buf = b''
    while len(buf) < n:
        c = os.read(fd, n - len(buf))
        if not c:
            return None
        buf += c
    return buf


def _worker_loop(rfd, wfd, target, cfg):
    while True:
        hdr = _read_exact(rfd, 4)
        if hdr is None:
            return
        n = struct.unpack('>I', hdr)[0]
        prefix, want_witness = pickle.loads(_read_exact(rfd, n))
        if prefix is None:
            return
        res = run_path(target, cfg, prefix, want_witness)
        data = pickle.dumps(res)
        os.write(wfd, struct.pack('>I', len(data)) + data)


class ExploreResult(object):
    def __init__(self):
        self.paths = 0
        self.status = {}
        self.obls = []          # all obligation records (with path index)
        self.nq = 0
        self.solver_s = 0.0
        self.kills = 0
        self.unknowns = 0
        self.left = 0
        self.killed_paths = 0
        self.errors = []
        self.reached = set()
        self.inconclusive_paths = 0
        self.wall = 0.0
        self.sample_traces = []
        self.notes = []
        self.nontrivial = 0
        self.events = []
        self.path_results = []

    @property
    def exhaustive(self):
        return self.left == 0 and self.killed_paths == 0 and not any(
            k.startswith('abort:') and k not in ('abort:infeasible',) for k in self.status)

    def summary(self):
        d = {}
        for o in self.obls:
            d[o['result']] = d.get(o['result'], 0) + 1
        return d


def explore(target, cfg=None, nproc=None, max_paths=200000, wall_budget=None, keep_paths=False,
            first_prefix=None, on_result=None):
    """Explore all paths of target; returns ExploreResult."""
    cfg = cfg or Cfg()
    nproc = nproc or min(16, os.cpu_count() or 1)
    res = ExploreResult()
    t0 = time.time()
    pending = [list(first_prefix or [])]
    if nproc <= 1:
        while pending:
            if res.paths >= max_paths or (wall_budget and time.time() - t0 > wall_budget):
                break
            prefix = pending.pop()
            r = run_path(target, cfg, prefix, want_witness=(res.paths < 6))
            _absorb(res, r, pending, keep_paths, on_result)
        res.left = len(pending)
        res.wall = time.time() - t0
        return res
    workers = [_Worker(target, cfg) for _ in range(nproc)]
    try:
        while True:
            over = res.paths >= max_paths or (wall_budget and time.time() - t0 > wall_budget)
            idle = [w for w in workers if w.busy is None]
            submitted = res.paths + sum(1 for w in workers if w.busy is not None)
            while idle and pending and not over and submitted < max_paths:
                w = idle.pop()
                w.send(pending.pop(), want_witness=(submitted < 6))
                submitted += 1
            busy = [w for w in workers if w.busy is not None]
            if not busy:
                break
            rl, _, _ = select.select([w.rfd for w in busy], [], [], 1.0)
            now = time.time()
            for w in busy:
                if w.rfd in rl:
                    chunk = os.read(w.rfd, 1 << 20)
                    if not chunk:
                        # worker died
                        res.killed_paths += 1
                        res.errors.append('worker died on prefix len %d' % len(w.busy))
                        w.kill()
                        w.spawn()
                        continue
                    w.buf += chunk
                    while len(w.buf) >= 4:
                        n = struct.unpack('>I', w.buf[:4])[0]
                        if len(w.buf) < 4 + n:
                            break
                        r = pickle.loads(w.buf[4:4 + n])
                        w.buf = w.buf[4 + n:]
                        w.busy = None
                        _absorb(res, r, pending, keep_paths, on_result)
                elif now - w.started > cfg.path_deadline_s:
                    res.killed_paths += 1
                    res.notes.append('path killed after %ds (prefix len %d)' % (cfg.path_deadline_s, len(w.busy)))
                    w.kill()
                    w.spawn()
    finally:
        for w in workers:
            w.kill()
    res.left = len(pending)
    res.wall = time.time() - t0
    return res


def _absorb(res, r, pending, keep_paths, on_result):
    idx = res.paths
    res.paths += 1
    res.status[r['status']] = res.status.get(r['status'], 0) + 1
    if r['status'] == 'error':
        res.errors.append(r['info'])
    elif r['status'].startswith('abort:') and r['status'] != 'abort:infeasible':
        res.notes.append('%s: %s' % (r['status'], r['info']))
    for o in r['obls']:
        o = dict(o)
        o['path'] = idx
        res.obls.append(o)
    res.nq += r['nq']
    res.solver_s += r['solver_s']
    res.kills += r['kills']
    res.unknowns += r['unknowns']
    res.reached.update(r['reached'])
    if r['inconclusive']:
        res.inconclusive_paths += 1
    if any(t[0] == 'd' and not t[2] for t in r['trace']) and r['obls']:
        res.nontrivial += 1
    if len(res.sample_traces) < 3 and r['obls']:
        res.sample_traces.append({'decisions': ''.join(
            ('T' if t[1] else 'F') if t[0] == 'd' else '[%s]' % t[1] for t in r['trace'])[:200],
            'obligations': [o['label'] + ':' + o['result'] for o in r['obls']][:12],
            'status': r['status'],
            'one_input_of_this_path': ({k: (float(v) if isinstance(v, Fraction) else v) for k, v in list(r['witness'].items())[:24]}
                                       if r.get('witness') else None)})
    res.notes.extend([n_ for n_ in r['notes'] if n_.startswith('crosschecked:') or 'DISAGREEMENT' in n_])
    res.notes.extend(r['notes'][:5] if not PROFILE else r['notes'])
    res.events.extend(r.get('events', [])[:50] if len(res.events) < 500 else [])
    pending.extend(r['pending'])
    if keep_paths:
        res.path_results.append(r)
    if on_result is not None:
        on_result(r)
