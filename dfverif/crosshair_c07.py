"""
C07, second engine: CrossHair (symbolic execution of Python with z3) on the pure-Python parameter checks of dfols/params.py.
Contracts: check_integer / check_float / check_bool against their specification, the defaults pass check_all_params for all
n, npt >= n+1, maxfun >= 1 and both noise presets, a second update of a key raises ValueError.
A refutation is replayed by calling the twin `<name>_holds(...)` concretely with CrossHair's arguments.
"""
import os
import re
import sys
import json
import shutil
import tempfile
import subprocess

from . import loader

TEMPLATE = '''
import sys
sys.path.insert(0, %(repo)r)
from typing import Optional, Union
from dfols.params import check_integer, check_float, check_bool, ParameterList


def _spec_float(val, lower, upper, allow_none):
    return (val is None and allow_none) or (isinstance(val, float) and (lower is None or val >= lower) and (upper is None or val <= upper))


def _spec_int(val, lower, upper, allow_none):
    return (val is None and allow_none) or (isinstance(val, int) and (lower is None or val >= lower) and (upper is None or val <= upper))


def spec_check_float(val: Union[None, bool, int, float, str], lower: Optional[float], upper: Optional[float], allow_none: bool) -> bool:
    """
    post: _ == True
    """
    return spec_check_float_holds(val, lower, upper, allow_none)


def spec_check_float_holds(val, lower, upper, allow_none):
    return bool(check_float(val, lower=lower, upper=upper, allow_nonetype=allow_none)) == bool(_spec_float(val, lower, upper, allow_none))


def spec_check_integer(val: Union[None, bool, int, float, str], lower: Optional[int], upper: Optional[int], allow_none: bool) -> bool:
    """
    post: _ == True
    """
    return spec_check_integer_holds(val, lower, upper, allow_none)


def spec_check_integer_holds(val, lower, upper, allow_none):
    return bool(check_integer(val, lower=lower, upper=upper, allow_nonetype=allow_none)) == bool(_spec_int(val, lower, upper, allow_none))


def spec_check_bool(val: Union[None, bool, int, float, str], allow_none: bool) -> bool:
    """
    post: _ == True
    """
    return spec_check_bool_holds(val, allow_none)


def spec_check_bool_holds(val, allow_none):
    return bool(check_bool(val, allow_nonetype=allow_none)) == bool((val is None and allow_none) or isinstance(val, bool))


def defaults_are_valid(n: int, npt: int, maxfun: int, noise: bool) -> bool:
    """
    pre: 1 <= n <= 50
    pre: n + 1 <= npt <= 2000
    pre: 1 <= maxfun <= 100000
    post: _ == True
    """
    return defaults_are_valid_holds(n, npt, maxfun, noise)


def defaults_are_valid_holds(n, npt, maxfun, noise):
    p = ParameterList(n, npt, maxfun, objfun_has_noise=noise)
    ok, bad = p.check_all_params(npt)
    return bool(ok)


def second_update_raises(n: int, v: float) -> bool:
    """
    pre: 1 <= n <= 5
    post: _ == True
    """
    return second_update_raises_holds(n, v)


def second_update_raises_holds(n, v):
    p = ParameterList(n, n + 1, 10)
    p("tr_radius.eta1", new_value=0.2)
    try:
        p("tr_radius.eta1", new_value=v)
    except ValueError:
        return True
    return False
'''


def run(per_condition_timeout=30):
    """-> dict(confirmed, inconclusive, refuted=[(function, call, reproduced)], seconds)"""
    import time
    t0 = time.time()
    d = tempfile.mkdtemp(prefix='dfverif-ch-')
    try:
        fn = os.path.join(d, 'ch_params.py')
        with open(fn, 'w') as f:
            f.write(TEMPLATE % {'repo': loader.REPO})
        r = subprocess.run([sys.executable, '-m', 'crosshair', 'check', '--report_all', '--per_condition_timeout', str(per_condition_timeout), fn],
                           cwd=d, capture_output=True, text=True, timeout=per_condition_timeout * 8 + 60)
        out = r.stdout + r.stderr
        confirmed = len(re.findall(r'Confirmed over all paths', out))
        inconclusive = len(re.findall(r'Not confirmed|Unable to meet precondition', out))
        refuted = []
        for m in re.finditer(r'error: false when calling (\w+)\((.*)\)(?: \(which returns.*)?$', out, flags=re.M):
            name, args = m.group(1), m.group(2)
            call = "%s_holds(%s)" % (name, args)
            rr = subprocess.run([sys.executable, '-c', "import ch_params as m; from math import nan, inf; import sys; sys.exit(0 if m.%s else 1)" % call],
                                cwd=d, capture_output=True, text=True)
            refuted.append({'function': name, 'call': call, 'reproduced': rr.returncode == 1})
        other_errors = [l for l in out.splitlines() if ': error:' in l and 'false when calling' not in l]
        return {'confirmed': confirmed, 'inconclusive': inconclusive, 'refuted': refuted, 'other_errors': other_errors[:5],
                'conditions': 5, 'seconds': round(time.time() - t0, 1), 'tool': 'crosshair-tool 0.0.110'}
    finally:
        shutil.rmtree(d, ignore_errors=True)
