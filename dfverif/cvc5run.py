"""run cvc5 (python wheel 1.4) on an SMT-LIB2 file: prints sat/unsat/unknown"""
import sys


def main():
    import cvc5
    fn, t = sys.argv[1], int(sys.argv[2])
    s = cvc5.Solver()
    s.setOption("tlimit", str(t * 1000))
    try:
        s.setOption("nl-cov", "true")
    except Exception:
        pass
    p = cvc5.InputParser(s)
    p.setFileInput(cvc5.InputLanguage.SMT_LIB_2_6, fn)
    sm = p.getSymbolManager()
    txt = open(fn).read()
    if '(set-logic' not in txt:
        s.setLogic("ALL")
    while True:
        c = p.nextCommand()
        if c.isNull():
            break
        r = str(c.invoke(s, sm)).strip()
        if r in ('sat', 'unsat', 'unknown'):
            print(r)
            return


if __name__ == '__main__':
    try:
        main()
    except Exception as e:
        print("(error %s)" % e)
