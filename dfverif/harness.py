"""
Harness framework.

A harness body is `def body(E, **params)`, written once against an environment E:
  * SymEnv  - the real dfols source loaded over the symbolic numpy model; inputs are z3 symbols,
              `E.prove` is a solver query over the whole path condition;
  * ConcEnv - the real, imported dfols package with real numpy; inputs take the values of a solver
              model; `E.prove` is evaluated in floating point.  This is the generic *unit replay*:
              a counterexample is only reported if the same obligation fails on the real code.
"""
import os
import sys
import json
import time
import math
import hashlib
import fnmatch
import pickle
import importlib
import traceback
from fractions import Fraction

import numpy as _np
import z3

from . import core, sym, arr, shim, loader
from .arr import SArr

VERIF = os.path.dirname(os.path.dirname(os.path.abspath(__file__)))
if loader.REPO not in sys.path:
    sys.path.insert(0, loader.REPO)     # replays import the same tree the encoding was generated from

EXIT_OK, EXIT_VIOLATION, EXIT_HARNESS = 0, 1, 2


class ReplayDiverged(Exception):
    pass


class Stop(BaseException):
    """raised by stubs to end a path at a chosen point"""
    def __init__(self, payload=None):
        super().__init__()
        self.payload = payload


# ---------------------------------------------------------------------------------------

_NS_CACHE = {}


def _fresh_ns():
    return loader.load_modules()


class SymEnv(object):
    symbolic = True

    def __init__(self):
        self.np = shim.np
        self.ns = _fresh_ns()      # fresh namespace per path: stubs cannot leak between paths
        shim.HOOKS.rng = None
        shim.HOOKS.la = None
        shim.HOOKS.log = None
        shim.HOOKS.warn = None
        shim.HOOKS.fmt = None
        shim.HOOKS.range_cap = None
        shim.HOOKS.float_sqrt = False
        shim.HOOKS.norm_positive = False
        self.p = core.CUR

    # -- inputs
    def real(self, name, xr=False, npy=True, lo=None, hi=None):
        v = sym.fresh_real(name, npy=npy, xr=xr)
        if lo is not None:
            self.p.axiom(v.v >= sym._zr(_q(lo)))
        if hi is not None:
            self.p.axiom(v.v <= sym._zr(_q(hi)))
        return v

    def int(self, name, lo=None, hi=None):
        return sym.fresh_int(name, lo, hi)

    def bool(self, name):
        return sym.fresh_bool(name)

    def fp(self, name):
        return sym.fresh_fp(name)

    def vec(self, name, n, xr=False, dtype='f', lo=None, hi=None, fp=False):
        if dtype == 'i':
            return SArr.from_flat([self.int("%s%d" % (name, i), lo, hi) for i in range(n)], (n,), 'i')
        if fp:
            return SArr.from_flat([self.fp("%s%d" % (name, i)) for i in range(n)], (n,), 'f')
        return SArr.from_flat([self.real("%s%d" % (name, i), xr=xr, lo=lo, hi=hi) for i in range(n)], (n,), 'f')

    def mat(self, name, r, c, xr=False):
        return SArr.from_flat([self.real("%s%d_%d" % (name, i, j), xr=xr) for i in range(r) for j in range(c)], (r, c), 'f')

    def arr(self, vals, dtype=None):
        return SArr.from_nested(vals, dtype)

    def const(self, x):
        """a concrete float constant"""
        return _q(x)

    # -- logic
    def assume(self, c, check=True):
        if isinstance(c, bool):
            self.p.assume(c)
        else:
            self.p.assume(sym.bterm(c), check=check)

    def prove(self, c, label, detail=None):
        return sym.prove(c, label, detail=detail)

    def fail(self, label, detail=None):
        return self.p.fail(label, detail=detail)

    def reach(self, label):
        self.p.reach(label)

    def note(self, s):
        self.p.note(s)

    def event(self, e):
        self.p.events.append(e)

    # exact comparisons (symbolic) / tolerant (concrete)
    def eq(self, a, b, tol=None):
        return a == b

    def le(self, a, b, tol=None):
        return a <= b

    def lt(self, a, b, tol=None):
        return a < b

    def same(self, a, b, tol=None):
        """equal as values, NaN == NaN"""
        return sym.wrapb(sym.b_or(sym.b_and(sym.braw(sym.f_isnan(a)), sym.braw(sym.f_isnan(b))), sym.braw(a == b)))

    def all(self, xs):
        return sym.all_of(list(xs))

    def any(self, xs):
        return sym.any_of(list(xs))

    def implies(self, a, b):
        return sym.implies(a, b)

    def no(self, c):
        return sym.wrapb(sym.b_not(sym.braw(c)))

    def ite(self, c, a, b):
        return sym.ite(c, a, b)

    def isnan(self, x):
        return sym.f_isnan(x)

    def isfinite(self, x):
        return sym.f_isfinite(x)

    def is_true(self, c):
        """fork on c"""
        return bool(c)

    def flat(self, a):
        return a.flat() if isinstance(a, SArr) else list(_np.asarray(a).flatten())

    def patch(self, name, fn):
        self.ns[name] = fn

    def get(self, name):
        return self.ns[name]

    def patch_attr(self, obj, name, fn):
        setattr(obj, name, fn)

    def cap_loops(self, k):
        shim.HOOKS.range_cap = k

    def float_sqrt(self, on=True):
        shim.HOOKS.float_sqrt = on

    def assume_norms_positive(self, on=True):
        shim.HOOKS.norm_positive = on

    def own(self, a, name):
        """mark an array as caller-owned: any in-place write to its storage is recorded"""
        a.st.owner = name
        return a

    def owned_intact(self):
        return not any(e[0] == 'write-to-owned' for e in self.p.events if isinstance(e, tuple))

    def hooks(self, rng=None, la=None, log=None, warn=None):
        shim.HOOKS.rng = rng
        shim.HOOKS.la = la
        shim.HOOKS.log = log
        shim.HOOKS.warn = warn

    def make_step(self, module, func, selector, name, in_loop):
        fn_node = loader.find_def(module, func)
        stmts = selector(fn_node)
        return loader.make_step(self.ns, fn_node, stmts, name, in_loop,
                                filename=os.path.join(loader.REPO, 'dfols', module + '.py'))


def _q(x):
    if isinstance(x, Fraction):
        return x
    if isinstance(x, int):
        return Fraction(x)
    if isinstance(x, float):
        return Fraction(x)
    if isinstance(x, str):
        return Fraction(x)
    return x


REAL_MODULES = ['dfols.util', 'dfols.params', 'dfols.trust_region', 'dfols.model', 'dfols.diagnostic_info',
                'dfols.controller', 'dfols.solver']


class _RealNS(object):
    def __init__(self):
        self.mods = [importlib.import_module(m) for m in REAL_MODULES]
        self.over = {}

    def __getitem__(self, name):
        if name in self.over:
            return self.over[name]
        for m in reversed(self.mods):
            if name in m.__dict__:
                return m.__dict__[name]
        raise KeyError(name)

    def __contains__(self, name):
        try:
            self[name]
            return True
        except KeyError:
            return False


class ConcEnv(object):
    """Concrete replay against the real dfols package."""
    symbolic = False

    def __init__(self, model, tol=1e-9):
        self.np = _np
        self.model = model
        self.tol = tol
        self.counters = {}
        self.ns = _RealNS()
        self.results = []     # (label, ok)
        self.patched = []
        self.events = []
        self.notes = []
        self._step_ns = None

    def _name(self, base):
        k = self.counters.get(base, 0)
        self.counters[base] = k + 1
        return "%s!%d" % (base, k) if k else base

    def _val(self, nm, default=0):
        v = self.model.get(nm, default)
        if isinstance(v, dict) and 'frac' in v:
            v = Fraction(int(v['frac'][0]), int(v['frac'][1]))
        return v

    def real(self, name, xr=False, npy=True, lo=None, hi=None):
        nm = self._name(name)
        if xr:
            if self._val(nm + '.nan', False) is True:
                return _np.float64('nan') if npy else float('nan')
            i = self._val(nm + '.inf', 0)
            if i:
                return _np.float64(i * _np.inf) if npy else float(i) * float('inf')
        v = self._val(nm, 0)
        if isinstance(v, str):
            v = float.fromhex(v) if v not in ('nan', 'inf', '-inf') else float(v)
        f = float(v)
        return _np.float64(f) if npy else f

    def int(self, name, lo=None, hi=None):
        return int(self._val(self._name(name), lo if lo is not None else 0))

    def bool(self, name):
        return bool(self._val(self._name(name), False))

    def fp(self, name):
        v = self._val(self._name(name), 0.0)
        if isinstance(v, str):
            v = float.fromhex(v) if v not in ('nan', 'inf', '-inf') else float(v)
        return _np.float64(float(v))

    def vec(self, name, n, xr=False, dtype='f', lo=None, hi=None, fp=False):
        if dtype == 'i':
            return _np.array([self.int("%s%d" % (name, i), lo, hi) for i in range(n)], dtype=int)
        if fp:
            return _np.array([self.fp("%s%d" % (name, i)) for i in range(n)], dtype=float)
        return _np.array([self.real("%s%d" % (name, i), xr=xr) for i in range(n)], dtype=float)

    def mat(self, name, r, c, xr=False):
        return _np.array([[self.real("%s%d_%d" % (name, i, j), xr=xr) for j in range(c)] for i in range(r)], dtype=float).reshape((r, c))

    def arr(self, vals, dtype=None):
        d = {'f': float, 'i': int, 'b': bool, None: None}[dtype]
        return _np.array(vals, dtype=d)

    def const(self, x):
        return float(_q(x))

    def assume(self, c, check=True):
        if not bool(c):
            raise ReplayDiverged("assumption false in concrete replay")

    def prove(self, c, label, detail=None):
        ok = bool(c)
        self.results.append((label, ok))
        return ok

    def fail(self, label, detail=None):
        self.results.append((label, False))
        return False

    def reach(self, label):
        pass

    def note(self, s):
        self.notes.append(s)

    def event(self, e):
        self.events.append(e)

    def _t(self, a, b, tol):
        tol = self.tol if tol is None else tol
        a = float(a)
        b = float(b)
        return tol * (1.0 + abs(a) + abs(b)) if (math.isfinite(a) and math.isfinite(b)) else 0.0

    def eq(self, a, b, tol=None):
        a, b = float(a), float(b)
        if math.isnan(a) or math.isnan(b):
            return False
        if a == b:
            return True
        return abs(a - b) <= self._t(a, b, tol)

    def le(self, a, b, tol=None):
        a, b = float(a), float(b)
        if math.isnan(a) or math.isnan(b):
            return False
        return a <= b or (a - b) <= self._t(a, b, tol)

    def lt(self, a, b, tol=None):
        a, b = float(a), float(b)
        if math.isnan(a) or math.isnan(b):
            return False
        return a < b

    def same(self, a, b, tol=None):
        a, b = float(a), float(b)
        if math.isnan(a) and math.isnan(b):
            return True
        return self.eq(a, b, tol)

    def all(self, xs):
        return all(bool(x) for x in xs)

    def any(self, xs):
        return any(bool(x) for x in xs)

    def implies(self, a, b):
        return (not bool(a)) or bool(b)

    def no(self, c):
        return not bool(c)

    def ite(self, c, a, b):
        return a if bool(c) else b

    def isnan(self, x):
        return bool(_np.isnan(x))

    def isfinite(self, x):
        return bool(_np.isfinite(x))

    def is_true(self, c):
        return bool(c)

    def flat(self, a):
        return list(_np.asarray(a).flatten())

    def patch(self, name, fn):
        self.ns.over[name] = fn
        for m in self.ns.mods:
            if name in m.__dict__:
                self.patched.append((m, name, m.__dict__[name]))
                m.__dict__[name] = fn

    def get(self, name):
        return self.ns[name]

    def cap_loops(self, k):
        pass

    def float_sqrt(self, on=True):
        pass

    def assume_norms_positive(self, on=True):
        pass

    def own(self, a, name):
        if not hasattr(self, '_owned'):
            self._owned = []
        self._owned.append((a, a.copy(), name))
        return a

    def owned_intact(self):
        return all(_np.array_equal(a, c, equal_nan=True) for a, c, _ in getattr(self, '_owned', []))

    def patch_attr(self, obj, name, fn):
        self.patched.append((obj, name, obj.__dict__[name] if name in getattr(obj, '__dict__', {}) else getattr(obj, name)))
        setattr(obj, name, fn)

    def hooks(self, rng=None, la=None, log=None, warn=None):
        self._rng = rng
        if la is not None:
            import scipy.linalg as _sla
            import scipy.stats as _st
            for modobj, nm, key in ((_sla, 'qr', 'qr'), (_st, 'linregress', 'linregress')):
                orig = getattr(modobj, nm)
                self.patched.append((modobj, nm, orig))

                def wrapped(*a, _orig=orig, _key=key, **k):
                    r = la(_key, a, k)
                    return _orig(*a, **k) if r is NotImplemented else r
                setattr(modobj, nm, wrapped)
        if rng is not None:
            r = _np.random
            self.patched.append((r, 'normal', r.normal))
            self.patched.append((r, 'randint', r.randint))
            r.normal = lambda loc=0.0, scale=1.0, size=None: rng('normal', (size,) if isinstance(size, int) else size)
            r.randint = lambda low, high=None, size=None: rng('randint', (size,) if isinstance(size, int) else size, low=low, high=high)
        if log is not None:
            import logging

            class H(logging.Handler):
                def emit(self_h, rec):
                    log(rec.levelname.lower(), rec.getMessage())
            h = H()
            lg = logging.getLogger('dfols')
            self._old_level = lg.level
            lg.setLevel(logging.DEBUG)
            lg.addHandler(h)
            self._log_handler = (lg, h)

    def make_step(self, module, func, selector, name, in_loop):
        fn_node = loader.find_def(module, func)
        stmts = selector(fn_node)
        mod = importlib.import_module('dfols.' + module)
        ns = dict(mod.__dict__)
        ns.update(self.ns.over)
        self._step_ns = ns
        return loader.make_step(ns, fn_node, stmts, name, in_loop,
                                filename=os.path.join(loader.REPO, 'dfols', module + '.py'), lift=False)

    def restore(self):
        for m, name, old in reversed(self.patched):
            if isinstance(m, type(_np)) or hasattr(m, '__dict__'):
                setattr(m, name, old)
        self.patched = []
        h = getattr(self, '_log_handler', None)
        if h:
            h[0].removeHandler(h[1])
            h[0].setLevel(self._old_level)


def replay_concrete(body, params, model):
    """run the harness body on the real dfols with the model's values; -> {label: [ok,...]}, status"""
    import warnings
    E = ConcEnv(model)
    status = 'ok'
    old_err = _np.seterr(all='ignore')
    try:
        with warnings.catch_warnings():
            warnings.simplefilter('ignore')
            body(E, **params)
    except ReplayDiverged as e:
        status = 'diverged'
    except Stop:
        status = 'ok'
    except core.PathAbort as e:
        status = 'abort:' + e.kind
    except Exception as e:
        status = 'exception:' + type(e).__name__ + ':' + str(e)[:200]
    finally:
        E.restore()
        _np.seterr(**old_err)
    res = {}
    for label, ok in E.results:
        res.setdefault(label, []).append(ok)
    return res, status


# ---------------------------------------------------------------------------------------
# symbolic entry point used by core.run_path

def sym_entry(module, body, params):
    mod = importlib.import_module(module)
    fn = getattr(mod, body)
    E = SymEnv()
    try:
        fn(E, **params)
    except Stop:
        pass


class Harness(object):
    def __init__(self, name, module, body, params=None, cfg=None, functions=(), bounds='', assumptions=(),
                 expect=(), max_paths=50000, wall_budget=600, nproc=None, max_replays=4, replay=True,
                 expect_exhaustive=True, home=None):
        self.name = name
        self.module = module
        self.body = body
        self.params = params or {}
        self.cfg = cfg or core.Cfg()
        self.functions = list(functions)
        self.bounds = bounds
        self.assumptions = list(assumptions)
        self.expect = list(expect)
        self.max_paths = max_paths
        self.wall_budget = wall_budget
        self.nproc = nproc
        self.max_replays = max_replays
        self.replay = replay
        self.expect_exhaustive = expect_exhaustive
        self.home = home
        sc = os.environ.get('DFVERIF_BUDGET_SCALE')
        if sc and self.wall_budget:
            self.wall_budget = max(20, int(self.wall_budget * float(sc)))      # smoke-testing a tier with shortened exploration budgets


def load_known():
    path = os.path.join(VERIF, 'known_findings.json')
    if not os.path.exists(path):
        return []
    with open(path) as f:
        return json.load(f).get('findings', [])


def _match_known(known, pid, hname, label):
    for k in known:
        if k.get('status') != 'known' or k.get('property') != pid:
            continue
        kh = k.get('harness')
        if kh is not None and not fnmatch.fnmatchcase(hname, kh):
            continue
        kl = k.get('label')
        if kl is None or fnmatch.fnmatchcase(label, kl):
            return k
    return None


def _run_one(pid, h, known):
    """explore one harness, replay its counterexamples; returns a picklable report"""
    out = {'name': h.name, 'errors': [], 'violations': [], 'known_hits': [], 'samples': [], 'rep': None,
           'reproduced': 0, 'spurious': 0, 'exhaustive': True, 'nontrivial': 0}
    mod = importlib.import_module(h.module)
    body = getattr(mod, h.body)
    h.cfg.pid = pid
    h.cfg.home = h.home or pid
    h.cfg.seed = int(os.environ.get('VERIF_SEED', '0') or 0)
    if os.environ.get('VERIF_TIER_EFFECTIVE') == 'thorough' and not h.cfg.fork_queries:
        h.cfg.crosscheck_rate = 0.001
        h.cfg.portfolio_s = 20
    try:
        res = core.explore(('dfverif.harness', 'sym_entry', {'module': h.module, 'body': h.body, 'params': h.params}),
                           cfg=h.cfg, nproc=h.nproc, max_paths=h.max_paths, wall_budget=h.wall_budget)
    except loader.AnchorError as e:
        out['errors'].append("anchor: %s" % e)
        return out
    summ = res.summary()
    disagreements = [n_ for n_ in res.notes if 'SOLVER DISAGREEMENT' in n_]
    if disagreements:
        out['errors'].append("%s: %s" % (h.name, disagreements[0]))
    ncross = sum(1 for n_ in res.notes if n_.startswith('crosschecked:'))
    rep = {'harness': h.name, 'crosschecked_obligations': ncross, 'paths': res.paths, 'status': res.status, 'obligations': len(res.obls),
           'summary': summ, 'queries': res.nq, 'solver_s': round(res.solver_s, 2), 'kills': res.kills,
           'left': res.left, 'killed_paths': res.killed_paths, 'exhaustive': res.exhaustive,
           'wall_s': round(res.wall, 2), 'bounds': h.bounds, 'unknown_queries': res.unknowns,
           'inconclusive_paths': res.inconclusive_paths, 'notes': sorted(set(res.notes))[:6]}
    if res.errors:
        out['errors'].append("%s: path error: %s" % (h.name, res.errors[0][-1500:]))
    missing = [l for l in h.expect if l not in res.reached]
    if missing:
        out['errors'].append("%s: vacuity: obligation labels never reached: %s" % (h.name, missing))
    if h.expect_exhaustive and not res.exhaustive:
        out['exhaustive'] = False
    if not res.exhaustive:
        out['exhaustive'] = False
    by_label = {}
    for o in res.obls:
        if o['result'] == 'cex':
            by_label.setdefault(o['label'], []).append(o)
    unk = {}
    for o in res.obls:
        if o['result'] == 'unknown':
            unk[o['label']] = unk.get(o['label'], 0) + 1
    rep['unknown_labels'] = unk
    rep['cex_labels'] = {}
    for label, lst in sorted(by_label.items()):
        outcome = 'spurious'
        tried = 0
        detail = None
        for o in lst[:h.max_replays]:
            tried += 1
            if not h.replay:
                outcome = 'noreplay'
                break
            rfn = getattr(mod, h.replay) if isinstance(h.replay, str) else None
            if rfn is not None:
                ok, info = rfn(h.params, label, o['model'])
                if ok:
                    outcome = 'reproduced'
                    detail = dict(o)
                    detail['replay_info'] = info
                    break
                detail = {'replay_status': str(info)[:300]}
                continue
            rr, st = replay_concrete(body, h.params, o['model'])
            oks = rr.get(label)
            if oks is not None and not all(oks):
                outcome = 'reproduced'
                detail = o
                break
            detail = {'replay_status': st, 'labels_seen': sorted(rr.keys())[:20]}
        rep['cex_labels'][label] = {'count': len(lst), 'replays_tried': tried, 'outcome': outcome}
        if outcome == 'reproduced':
            out['reproduced'] += 1
            k = _match_known(known, pid, h.name, label)
            rp = _write_replay(pid, h, label, detail)
            if k is not None:
                out['known_hits'].append((h.name, label, k, rp))
            else:
                out['violations'].append((h.name, label, rp))
        else:
            out['spurious'] += 1
            rep['cex_labels'][label]['note'] = detail if isinstance(detail, dict) and 'replay_status' in detail else None
    out['rep'] = rep
    out['nontrivial'] = res.nontrivial
    for s_ in res.sample_traces[:2]:
        out['samples'].append({'harness': h.name, **s_})
    return out


def _run_one_child(pid, h, known, wfd):
    try:
        out = _run_one(pid, h, known)
    except BaseException as e:
        out = {'name': h.name, 'errors': ["%s: %s: %s" % (h.name, type(e).__name__, ''.join(traceback.format_exception(type(e), e, e.__traceback__))[-1500:])],
               'violations': [], 'known_hits': [], 'samples': [], 'rep': None, 'reproduced': 0, 'spurious': 0,
               'exhaustive': False, 'nontrivial': 0}
    data = pickle.dumps(out)
    with os.fdopen(wfd, 'wb') as f:
        f.write(data)


def _run_all(pid, harnesses, known, jobs):
    """run harnesses concurrently: those with nproc==1 share `jobs` slots, the others run alone"""
    results = {}
    small = [h for h in harnesses if (h.nproc or 16) == 1]
    big = [h for h in harnesses if (h.nproc or 16) != 1]
    running = {}   # pid -> (h, rfd)
    queue = list(small)

    def reap(block):
        import select as _sel
        if not running:
            return
        fds = {rfd: cp for cp, (h, rfd) in running.items()}
        rl, _, _ = _sel.select(list(fds.keys()), [], [], None if block else 0)
        for rfd in rl:
            cp = fds[rfd]
            h, _ = running.pop(cp)
            chunks = []
            while True:
                c = os.read(rfd, 1 << 20)
                if not c:
                    break
                chunks.append(c)
            os.close(rfd)
            os.waitpid(cp, 0)
            try:
                results[h.name] = pickle.loads(b''.join(chunks))
            except Exception as e:
                results[h.name] = {'name': h.name, 'errors': ["%s: child died (%s)" % (h.name, e)], 'violations': [],
                                   'known_hits': [], 'samples': [], 'rep': None, 'reproduced': 0, 'spurious': 0,
                                   'exhaustive': False, 'nontrivial': 0}
    while queue or running:
        while queue and len(running) < jobs:
            h = queue.pop(0)
            rfd, wfd = os.pipe()
            cp = os.fork()
            if cp == 0:
                os.close(rfd)
                try:
                    _run_one_child(pid, h, known, wfd)
                finally:
                    os._exit(0)
            os.close(wfd)
            running[cp] = (h, rfd)
        reap(True)
    for h in big:
        results[h.name] = _run_one(pid, h, known)
    return [results[h.name] for h in harnesses]


def run_property(pid, harnesses, tier, seed, level='other', explanation='', extra_assumptions=(), extra_cov=None,
                 jobs=None, extra_errors=()):
    """run all harnesses of a property, replay counterexamples, write evidence, return exit code"""
    t0 = time.time()
    known = load_known()
    jobs = jobs or min(16, os.cpu_count() or 1)
    only = os.environ.get('DFVERIF_ONLY')       # development aid: run a subset of the harnesses, write no evidence
    if only:
        harnesses = [h for h in harnesses if only in h.name]
    total = dict(paths=0, nontrivial=0, obligations=0, discharged=0, unknown=0, cex=0, reproduced=0, spurious=0,
                 queries=0, solver_s=0.0, kills=0, left=0, killed_paths=0)
    hreports = []
    harness_errors = list(extra_errors)
    violations = []
    known_hits = {}
    samples = []
    all_exhaustive = True
    funcs = {}
    for h in harnesses:
        for fq in h.functions:
            m, n = fq.split('.', 1)
            try:
                funcs[fq] = loader.segment_sha(m, n)
            except loader.AnchorError as e:
                harness_errors.append("anchor: %s" % e)
    outs = _run_all(pid, harnesses, known, jobs)
    for out in outs:
        harness_errors.extend(out['errors'])
        if not out['exhaustive']:
            all_exhaustive = False
        for (hn, label, k, rp) in out['known_hits']:
            known_hits[(hn, label)] = (k, rp)
        violations.extend(out['violations'])
        total['reproduced'] += out['reproduced']
        total['spurious'] += out['spurious']
        total['nontrivial'] += out['nontrivial']
        samples.extend(out['samples'])
        rep = out['rep']
        if rep is None:
            continue
        hreports.append(rep)
        summ = rep['summary']
        total['paths'] += rep['paths']
        total['obligations'] += rep['obligations']
        total['discharged'] += summ.get('discharged', 0)
        total['unknown'] += summ.get('unknown', 0)
        total['cex'] += summ.get('cex', 0)
        total['queries'] += rep['queries']
        total['solver_s'] += rep['solver_s']
        total['kills'] += rep['kills']
        total['left'] += rep['left']
        total['killed_paths'] += rep['killed_paths']
    wall = time.time() - t0
    # ---- report
    seen_known = set()
    for (hn, label), (k, rp) in sorted(known_hits.items()):
        kid = k.get('id') or k.get('what')
        if kid in seen_known:
            continue
        seen_known.add(kid)
        print("KNOWN-FINDING: property=%s %s [first seen at %s/%s] replay=%s" % (pid, k.get('what', ''), hn, label, rp))
    for hn, label, rp in violations:
        print("VIOLATION property=%s replay=%s" % (pid, rp))
        print("  harness=%s obligation=%s" % (hn, label))
    tot_inc = 0
    for r in hreports:
        inc = r['summary'].get('unknown', 0)
        sp = sum(1 for v in r['cex_labels'].values() if v['outcome'] != 'reproduced')
        tot_inc += inc + sp
        if os.environ.get('DFVERIF_VERBOSE') or inc or sp or not r['exhaustive']:
            print("[%s] %s: paths=%d obligations=%d %s queries=%d solver=%.1fs wall=%.1fs exhaustive=%s%s%s" % (
                pid, r['harness'], r['paths'], r['obligations'], r['summary'], r['queries'], r['solver_s'], r['wall_s'],
                r['exhaustive'], (" INCONCLUSIVE(unknown)=%d" % inc) if inc else "",
                (" INCONCLUSIVE(counterexample labels not reproduced on real code)=%d" % sp) if sp else ""))
            for lb_, v_ in r['cex_labels'].items():
                if v_['outcome'] != 'reproduced':
                    print("      not reproduced: %s -> %s" % (lb_, str(v_.get('note'))[:400]))
            if r.get('unknown_labels'):
                print("      unknown by obligation: %s" % r['unknown_labels'])
    for e in harness_errors:
        print("HARNESS-ERROR property=%s %s" % (pid, e))
    print("[%s] tier=%s harnesses=%d paths=%d obligations=%d discharged=%d unknown=%d cex=%d (labels reproduced=%d, not reproduced=%d) "
          "queries=%d solver=%.1fs wall=%.1fs exhaustive=%s violations=%d known=%d" % (
              pid, tier, len(hreports), total['paths'], total['obligations'], total['discharged'], total['unknown'],
              total['cex'], total['reproduced'], total['spurious'], total['queries'], total['solver_s'], wall,
              bool(all_exhaustive), len(violations), len(seen_known)))
    cov = {
        'explanation': explanation,
        'evaluations': total['paths'],
        'distinct_nontrivial': total['nontrivial'],
        'rule': 'one case = one execution path of the real dfols source over symbolic inputs (distinct decision '
                'sequences); non-trivial = the path contains at least one genuinely two-sided symbolic decision '
                'and reached at least one obligation',
        'samples': samples[:8] or [{'note': 'no path reached an obligation'}],
        'obligations': total['obligations'],
        'discharged': total['discharged'],
        'inconclusive_unknown': total['unknown'],
        'counterexamples': total['cex'],
        'cex_labels_reproduced_on_real_code': total['reproduced'],
        'cex_labels_not_reproduced': total['spurious'],
        'solver_queries': total['queries'],
        'solver_seconds': round(total['solver_s'], 2),
        'solver_kills': total['kills'],
        'paths_left_unexplored': total['left'],
        'paths_killed': total['killed_paths'],
        'exhaustive': bool(all_exhaustive and not harness_errors),
        'functions_encoded': funcs,
        'harnesses': hreports,
        'known_findings_hit': [{'harness': a, 'label': b, 'what': k.get('what')} for (a, b), (k, _) in sorted(known_hits.items())],
        'harness_errors': harness_errors,
        'solver': 'z3 %s (python API)' % z3.get_version_string(),
    }
    if extra_cov:
        cov.update(extra_cov)
    assumptions = []
    for h in harnesses:
        for a in h.assumptions:
            if a not in assumptions:
                assumptions.append(a)
    assumptions.extend(extra_assumptions)
    ev = {'property_id': pid, 'tier': tier, 'seed': int(seed), 'level': level, 'coverage': cov,
          'assumptions': assumptions, 'wall_s': round(wall, 2), 'violations': len(violations)}
    os.makedirs(os.path.join(VERIF, 'evidence'), exist_ok=True)
    with open(os.devnull if only else os.path.join(VERIF, 'evidence', pid + '.json'), 'w') as f:
        json.dump(core._jsonable(ev), f, indent=1, sort_keys=True)
    if violations:
        return EXIT_VIOLATION      # replayed violations are reported even if another harness of the property had an error
    if harness_errors:
        return EXIT_HARNESS
    return EXIT_OK


def _write_replay(pid, h, label, o):
    d = os.path.join(VERIF, 'replays', pid)
    os.makedirs(d, exist_ok=True)
    key = hashlib.sha1(("%s|%s" % (h.name, label)).encode()).hexdigest()[:10]
    safe = ''.join(ch if (ch.isalnum() or ch in '._-') else '_' for ch in h.name)
    path = os.path.join(d, "%s-%s.json" % (safe, key))
    rec = {'property': pid, 'harness': h.name, 'module': h.module, 'body': h.body, 'params': h.params,
           'label': label, 'model': o.get('model'), 'detail': o.get('detail'),
           'trace': [list(t) for t in o.get('trace', [])][:400]}
    with open(path, 'w') as f:
        json.dump(core._jsonable(rec), f, indent=1, sort_keys=True)
    return os.path.relpath(path, VERIF)


def replay_file(path):
    with open(path) as f:
        rec = json.load(f)
    mod = importlib.import_module(rec['module'])
    body = getattr(mod, rec['body'])
    rr, st = replay_concrete(body, rec['params'], rec['model'])
    oks = rr.get(rec['label'])
    print("replay %s: status=%s obligation %s -> %s" % (path, st, rec['label'], oks))
    return 1 if (oks is not None and not all(oks)) else 0
