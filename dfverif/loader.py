"""
Load the real dfols source (from /repo, on every run) into a namespace whose numeric
environment is the symbolic model.  Nothing of dfols is re-typed by hand:
  * top-level defs / classes / constant assignments are compiled from the file's AST;
  * float literals are lifted to the exact rational of the double (`_CF`);
  * "template" % args becomes `_fmt(template, args)` (formatting is not the subject, except C20);
  * blocks that are not functions (the main loop of solve_main) are sliced structurally.
"""
import ast
import copy
import hashlib
import os

from . import shim

REPO = os.environ.get('DFVERIF_REPO', '/repo')

MODULE_ORDER = ['util', 'params', 'trust_region', 'model', 'diagnostic_info', 'controller', 'solver']


class AnchorError(Exception):
    """structural anchor not found: harness error (exit 2), never a verdict"""


class _Break(BaseException):
    pass


class _Continue(BaseException):
    pass


class _Return(BaseException):
    def __init__(self, value=None):
        super().__init__()
        self.value = value


class _Lift(ast.NodeTransformer):
    def visit_Constant(self, node):
        if isinstance(node.value, float):
            return ast.copy_location(
                ast.Call(func=ast.Name(id='_CF', ctx=ast.Load()), args=[ast.Constant(value=repr(node.value))], keywords=[]),
                node)
        return node

    def visit_BinOp(self, node):
        self.generic_visit(node)
        if isinstance(node.op, ast.Mod) and isinstance(node.left, ast.Constant) and isinstance(node.left.value, str):
            return ast.copy_location(
                ast.Call(func=ast.Name(id='_fmt', ctx=ast.Load()), args=[node.left, node.right], keywords=[]), node)
        return node

    def visit_JoinedStr(self, node):
        return node


_SRC_CACHE = {}
_CODE_CACHE = {}


def source_of(module):
    path = os.path.join(REPO, 'dfols', module + '.py')
    if path not in _SRC_CACHE:
        with open(path) as f:
            src = f.read()
        _SRC_CACHE[path] = (src, ast.parse(src, filename=path))
    return _SRC_CACHE[path]


def find_def(module, name):
    """top-level def/class `name`, or `Class.method`"""
    src, tree = source_of(module)
    parts = name.split('.')
    body = tree.body
    node = None
    for part in parts:
        node = None
        for n in body:
            if isinstance(n, (ast.FunctionDef, ast.ClassDef)) and n.name == part:
                node = n
                break
        if node is None:
            raise AnchorError("%s.%s not found" % (module, name))
        body = node.body
    return node


def segment_sha(module, name):
    src, _ = source_of(module)
    node = find_def(module, name)
    seg = ast.get_source_segment(src, node) or ''
    return hashlib.sha1(seg.encode()).hexdigest()[:12]


def _is_simple_const_assign(n):
    if not isinstance(n, ast.Assign) or len(n.targets) != 1 or not isinstance(n.targets[0], ast.Name):
        return False
    nm = n.targets[0].id
    if nm in ('__all__', 'module_logger'):
        return False
    for sub in ast.walk(n.value):
        if isinstance(sub, (ast.Call, ast.Name, ast.Attribute)):
            return False
    return True


def load_modules(ns=None, modules=None, skip=()):
    """exec all top-level defs of the given dfols modules into ns (shims pre-populated)"""
    if ns is None:
        ns = shim.base_namespace()
    ns.setdefault('__loaded__', {})
    for m in (modules or MODULE_ORDER):
        ck = (m, tuple(skip))
        if ck in _CODE_CACHE:
            code, loaded = _CODE_CACHE[ck]
            ns['__loaded__'].update(loaded)
            exec(code, ns)
            continue
        src, tree = source_of(m)
        loaded = {}
        body = []
        for n in tree.body:
            if isinstance(n, (ast.FunctionDef, ast.ClassDef)):
                if n.name in skip:
                    continue
                body.append(copy.deepcopy(n))
                seg = ast.get_source_segment(src, n) or ''
                loaded['%s.%s' % (m, n.name)] = hashlib.sha1(seg.encode()).hexdigest()[:12]
            elif _is_simple_const_assign(n):
                body.append(copy.deepcopy(n))
        mod = ast.Module(body=body, type_ignores=[])
        mod = _Lift().visit(mod)
        ast.fix_missing_locations(mod)
        code = compile(mod, os.path.join(REPO, 'dfols', m + '.py'), 'exec')
        _CODE_CACHE[ck] = (code, loaded)
        ns['__loaded__'].update(loaded)
        exec(code, ns)
    return ns


# ---------------------------------------------------------------------------------------
# slicing

class _LoopExits(ast.NodeTransformer):
    """rewrite break/continue that belong to the sliced loop, and return, into raises"""
    def __init__(self, in_loop):
        self.depth = 0
        self.in_loop = in_loop

    def _nested(self, node):
        self.depth += 1
        self.generic_visit(node)
        self.depth -= 1
        return node

    visit_For = _nested
    visit_While = _nested

    def visit_FunctionDef(self, node):
        return node

    def visit_Lambda(self, node):
        return node

    def visit_Break(self, node):
        if self.depth == 0 and self.in_loop:
            return ast.copy_location(ast.Raise(exc=ast.Call(func=ast.Name(id='_Break', ctx=ast.Load()), args=[], keywords=[]), cause=None), node)
        return node

    def visit_Continue(self, node):
        if self.depth == 0 and self.in_loop:
            return ast.copy_location(ast.Raise(exc=ast.Call(func=ast.Name(id='_Continue', ctx=ast.Load()), args=[], keywords=[]), cause=None), node)
        return node

    def visit_Return(self, node):
        val = node.value if node.value is not None else ast.Constant(value=None)
        return ast.copy_location(ast.Raise(exc=ast.Call(func=ast.Name(id='_Return', ctx=ast.Load()), args=[val], keywords=[]), cause=None), node)


def function_locals(fn):
    names = set(a.arg for a in fn.args.args + fn.args.kwonlyargs)
    if fn.args.vararg:
        names.add(fn.args.vararg.arg)
    if fn.args.kwarg:
        names.add(fn.args.kwarg.arg)
    for n in ast.walk(fn):
        if isinstance(n, ast.Name) and isinstance(n.ctx, (ast.Store, ast.Del)):
            names.add(n.id)
    return names


def make_step(ns, fn_node, stmts, step_name, in_loop, filename='<slice>', lift=True):
    """
    Compile `stmts` (statements of fn_node) into `def step_name(__env)`:
    locals of fn_node occurring in the block are unpacked from / written back to __env;
    break -> _Break, continue -> _Continue, return v -> _Return(v); falling off the end
    raises _Continue if in_loop else returns None.
    """
    flocals = function_locals(fn_node)
    used = set()
    for s in stmts:
        for n in ast.walk(s):
            if isinstance(n, ast.Name):
                used.add(n.id)
    names = sorted(flocals & used)
    body = [copy.deepcopy(s) for s in stmts]
    tr = _LoopExits(in_loop)
    body = [tr.visit(s) for s in body]
    if in_loop:
        body.append(ast.Raise(exc=ast.Call(func=ast.Name(id='_Continue', ctx=ast.Load()), args=[], keywords=[]), cause=None))
    unpack = ast.parse("\n".join("if %r in __env: %s = __env[%r]" % (n, n, n) for n in names) or "pass").body
    writeback = ast.parse("__l = locals()\nfor __k in %r:\n    if __k in __l: __env[__k] = __l[__k]" % (names,)).body
    fn = ast.FunctionDef(
        name=step_name,
        args=ast.arguments(posonlyargs=[], args=[ast.arg(arg='__env')], kwonlyargs=[], kw_defaults=[], defaults=[]),
        body=unpack + [ast.Try(body=body, handlers=[], orelse=[], finalbody=writeback)],
        decorator_list=[], type_params=[])
    mod = ast.Module(body=[fn], type_ignores=[])
    if lift:
        mod = _Lift().visit(mod)
    ast.fix_missing_locations(mod)
    ns['_Break'] = _Break
    ns['_Continue'] = _Continue
    ns['_Return'] = _Return
    exec(compile(mod, filename, 'exec'), ns)
    ns[step_name].__live_names__ = names
    return ns[step_name]


def find_main_loop(fn_node):
    """the only `while True:` directly in the body of the function"""
    hits = [s for s in fn_node.body if isinstance(s, ast.While) and isinstance(s.test, ast.Constant) and s.test.value is True]
    if len(hits) != 1:
        raise AnchorError("expected exactly one top-level `while True:` in %s, found %d" % (fn_node.name, len(hits)))
    return hits[0]


def scan_calls(module, names):
    """[(enclosing def path, call name, lineno)] for calls whose function name (last attribute) is in names"""
    _, tree = source_of(module)
    out = []

    def walk(node, path):
        for ch in ast.iter_child_nodes(node):
            if isinstance(ch, (ast.FunctionDef, ast.ClassDef)):
                walk(ch, path + [ch.name])
            else:
                if isinstance(ch, ast.Call):
                    f = ch.func
                    nm = f.attr if isinstance(f, ast.Attribute) else (f.id if isinstance(f, ast.Name) else None)
                    full = ast.unparse(f)
                    if nm in names or full in names:
                        out.append(('.'.join(path), full, ch.lineno))
                walk(ch, path)
    walk(tree, [])
    return out
