"""
OUTER - the real `solve` around a summarised solve_main: prologue (copies, scaling), hard-restart loop,
merge of run results, un-scaling and packaging.  solve_main is replaced by its summary (what STEP and the
x0-block harness prove about one run); everything else of solve runs for real.
"""
from . import core
from .harness import Harness, Stop

EXIT_KINDS = ['maxfun', 'rho', 'small', 'slow', 'linalg', 'tr_increase', 'eval_error', 'false_success', 'max_restarts']


def body(E, n, m, scaling, bounds, restarts, max_runs=3, use_old_rk=True, increase_npt=False, xr=False, noise=False):
    np = E.np
    x0 = E.own(E.vec('x0_', n), 'x0')
    rhobeg = E.real('rhobeg', npy=False)
    rhoend = E.real('rhoend', npy=False)
    E.assume(E.all([rhoend > 0, rhobeg > rhoend]))
    maxfun = E.int('maxfun', 1, None)
    kwargs = dict(rhobeg=rhobeg, rhoend=rhoend, maxfun=maxfun, scaling_within_bounds=scaling)
    xl = xu = None
    if bounds:
        xl = E.own(E.vec('xl', n), 'lower')
        xu = E.own(E.vec('xu', n), 'upper')
        E.assume(E.all([xu[i] - xl[i] >= 2 * rhobeg for i in range(n)]))
        if scaling:
            E.assume(rhobeg <= E.const('0.5'))
        kwargs['bounds'] = (xl, xu)
    up = {}
    if restarts:
        up = {'restarts.use_restarts': True, 'restarts.use_soft_restarts': False, 'restarts.max_unsuccessful_restarts': 2,
              'restarts.hard.use_old_rk': use_old_rk}
        if increase_npt:
            up.update({'restarts.increase_npt': True, 'restarts.max_npt': n + 3})
    if noise:
        # noisy objective without noise-level estimates: the solver overrides one of its own options - not in the caller's dictionary
        kwargs['objfun_has_noise'] = True
        up['logging.save_diagnostic_info'] = False
    up_copy = dict(up)
    kwargs['user_params'] = up
    runs = []
    ExitInformation = E.get('ExitInformation')
    X = {k: E.get(k) for k in ('EXIT_MAXFUN_WARNING', 'EXIT_SUCCESS', 'EXIT_SLOW_WARNING', 'EXIT_LINALG_ERROR', 'EXIT_TR_INCREASE_ERROR',
                                'EXIT_EVAL_ERROR', 'EXIT_FALSE_SUCCESS_WARNING')}

    def solve_main(objfun, x0_, argsf, xl_, xu_, projections, npt, rhobeg_, rhoend_, maxfun_, nruns_so_far, nf_so_far, nx_so_far,
                   nsamples, params, diagnostic_info, scaling_changes, h=None, lh=None, argsh=(), prox_uh=None, argsprox=None,
                   r0_avg_old=None, r0_nsamples_old=None, default_growing_method_set_by_user=None, do_logging=True, print_progress=False,
                   x0_eval_num_old=None, **other):
        k = len(runs)
        recycled = r0_avg_old is not None
        nf1 = E.int('nf_r%d' % k, 0, None)
        nx1 = E.int('nx_r%d' % k, 0, None)
        E.assume(E.all([nf1 >= nf_so_far + (0 if recycled else 1), nf1 <= maxfun_, nx1 >= nx_so_far + (0 if recycled else 1),
                        nx1 - nx_so_far <= nf1 - nf_so_far]))
        x = E.vec('x_r%d_' % k, n)
        E.assume(E.all([xl_[i] <= x[i] for i in range(n)] + [x[i] <= xu_[i] for i in range(n)]))
        r = E.vec('r_r%d_' % k, m)
        obj = E.real('obj_r%d' % k, xr=xr)
        if xr:
            E.assume(E.no(obj < 0))      # an objective value is NaN, +inf or a non-negative number
        has_jac = E.is_true(E.bool('jac_r%d' % k))
        jac = E.mat('J_r%d_' % k, m, n) if has_jac else None
        jn = E.vec('jn_r%d_' % k, n + 1, dtype='i', lo=1)
        cnt = E.int('cnt_r%d' % k, 1, 3)
        xnum = E.int('xnum_r%d' % k, 1, None)
        E.assume(xnum <= nx1)
        kind = [0, 1, 2, 4][int(E.int('kind_r%d' % k, 0, 3))]   # budget / restartable success / final success / restartable error
        if k + 1 >= max_runs:
            kind = 0      # bound: the last explored run ends on the budget
        if kind == 0:
            E.assume(nf1 == maxfun_)
            ei = ExitInformation(X['EXIT_MAXFUN_WARNING'], "Objective has been called MAXFUN times")
        elif kind == 1:
            ei = ExitInformation(X['EXIT_SUCCESS'], "rho has reached rhoend")
        elif kind == 2:
            ei = ExitInformation(X['EXIT_SUCCESS'], "Objective is sufficiently small")
        elif kind == 3:
            ei = ExitInformation(X['EXIT_SLOW_WARNING'], "Maximum slow iterations reached")
        elif kind == 4:
            ei = ExitInformation(X['EXIT_LINALG_ERROR'], "Singular matrix in mini-model interpolation (main loop)")
        elif kind == 5:
            ei = ExitInformation(X['EXIT_TR_INCREASE_ERROR'], "Trust region step gave model increase")
        elif kind == 6:
            ei = ExitInformation(X['EXIT_EVAL_ERROR'], "NaN received from objective function evaluation")
        else:
            ei = ExitInformation(X['EXIT_FALSE_SUCCESS_WARNING'], "Maximum false successful steps reached")
        runs.append({'x0': x0_.copy(), 'xl': xl_, 'xu': xu_, 'npt': npt, 'rhoend': rhoend_, 'nruns0': nruns_so_far, 'nf0': nf_so_far,
                     'nx0': nx_so_far, 'recycled': recycled, 'r0old': r0_avg_old, 'cnt_old': r0_nsamples_old, 'scaling': scaling_changes,
                     'x0num_old': x0_eval_num_old,
                     'ret': (x, r, obj, jac, cnt, nf1, nx1, nruns_so_far + 1, ei, diagnostic_info, xnum, jn), 'kind': kind,
                     'jac_copy': (jac.copy() if jac is not None else None), 'x_copy': x.copy()})
        return runs[-1]['ret']
    E.patch('solve_main', solve_main)
    solve = E.get('solve')
    try:
        soln = solve(lambda x: x, x0, **kwargs)
    except Exception as e:     # noqa
        E.fail('C07:outer:solve-raises-' + type(e).__name__, detail=str(e)[:200])
        return
    E.prove(len(runs) >= 1, 'C07:outer:at-least-one-run')
    if not runs:
        return
    if xr:
        # bad objective values across runs: a NaN result never displaces a non-NaN one, and success never comes with a NaN objective
        anyok = E.any([E.no(E.isnan(R['ret'][2])) for R in runs])
        E.prove(E.implies(anyok, E.no(E.isnan(soln.obj))), 'C08:outer:nan-run-result-never-displaces-a-non-nan-one')
        for R in runs:
            E.prove(E.implies(E.no(E.isnan(R['ret'][2])), E.no(R['ret'][2] < soln.obj)), 'C08:outer:result-not-worse-than-any-non-nan-run')
        if soln.flag == E.get('EXIT_SUCCESS'):
            E.prove(E.isfinite(soln.obj), 'C10:outer:success-never-with-a-non-finite-objective')
        # the budget guarantee survives bad values: no run is started once the budget is spent (a run evaluates its start point unconditionally)
        for k, R in enumerate(runs):
            if k > 0:
                E.prove(R['nf0'] < maxfun, 'C08:outer:no-run-started-with-budget-exhausted-after-a-bad-value-exit')
        E.prove(E.all([soln.nf <= maxfun]), 'C08:outer:nf-within-budget')
        return
    # ---- C01: the starting point handed to every run lies inside the (scaled) box it is given
    for R in runs:
        E.prove(E.all([R['xl'][i] <= R['x0'][i] for i in range(n)] + [R['x0'][i] <= R['xu'][i] for i in range(n)]), 'C01:outer:run-starts-inside-the-box')
    # ---- C19: caller data untouched
    E.prove(E.owned_intact(), 'C19:outer:caller-arrays-not-modified')
    E.prove(up == up_copy, 'C19:outer:user_params-not-modified')
    dflt = getattr(solve, '__defaults__', None) or ()
    E.prove(all(not (isinstance(v, list) and len(v) > 0) for v in dflt), 'C19:outer:mutable-default-arguments-untouched')
    # ---- C02: counters threaded, budget respected at every entry
    for k, R in enumerate(runs):
        if k == 0:
            E.prove(E.all([R['nf0'] == 0, R['nx0'] == 0, R['nruns0'] == 0]), 'C02:outer:first-run-starts-from-zero')
        else:
            P = runs[k - 1]['ret']
            E.prove(E.all([R['nf0'] == P[5], R['nx0'] == P[6], R['nruns0'] == P[7]]), 'C02:outer:counters-threaded-between-runs')
            E.prove(R['nf0'] < maxfun, 'C02:outer:no-run-started-with-budget-exhausted')
            # restart begins at the best point so far
    last = runs[-1]['ret']
    E.prove(E.all([soln.nf == last[5], soln.nx == last[6]]), 'C02:outer:soln-counters-are-final-counters')
    E.prove(soln.nruns == len(runs), 'C10:outer:nruns-is-number-of-runs')
    # ---- C04 / C03: merge
    sc = runs[0]['scaling']
    best = 0
    for k in range(1, len(runs)):
        ob, ok_ = runs[best]['ret'][2], runs[k]['ret'][2]
        if E.is_true(ok_ < ob):
            best = k
    B = runs[best]['ret']
    for k, R in enumerate(runs):
        E.prove(E.le(soln.obj, R['ret'][2]), 'C04:outer:result-not-worse-than-any-run')
    xb = runs[best]['x_copy']
    xs = xb if sc is None else sc[0] + xb * sc[1]
    E.prove(E.all([E.eq(soln.x[i], xs[i]) for i in range(n)]), 'C03:outer:x-is-the-best-run-x-unscaled-once')
    E.prove(E.all([E.eq(soln.resid[j], B[1][j]) for j in range(m)] + [E.eq(soln.obj, B[2]), soln.xmin_eval_num == B[10]]),
            'C03:outer:x-resid-obj-evalnum-from-the-same-run')
    for k in range(1, len(runs)):
        # every restart starts from the best point of the runs before it
        pb = 0
        for t in range(1, k):
            if E.is_true(runs[t]['ret'][2] < runs[pb]['ret'][2]):
                pb = t
        E.prove(E.all([E.eq(runs[k]['x0'][i], runs[pb]['x_copy'][i]) for i in range(n)]), 'C04:outer:restart-begins-at-best-point-so-far')
        if runs[k]['recycled']:
            E.prove(E.all([E.eq(runs[k]['r0old'][j], runs[pb]['ret'][1][j]) for j in range(m)] + [runs[k]['cnt_old'] == runs[pb]['ret'][4]]),
                    'C03:outer:recycled-residual-belongs-to-the-restart-point')
            E.prove(runs[k]['x0num_old'] is not None and runs[k]['x0num_old'] == runs[pb]['ret'][10],
                    'C03:outer:recycled-restart-point-keeps-its-evaluation-number')
    # ---- C11: Jacobian of the best run that has one, numbers with it, un-scaled exactly once
    jb = None
    for k in range(len(runs)):
        if runs[k]['ret'][3] is not None and (k == 0 or k <= best):
            pass
    # the code keeps the Jacobian of the latest *successful* run that returned one
    jk = None
    cur = 0
    if runs[0]['ret'][3] is not None:
        jk = 0
    for k in range(1, len(runs)):
        if E.is_true(runs[k]['ret'][2] < runs[cur]['ret'][2]):
            cur = k
            if runs[k]['ret'][3] is not None:
                jk = k
    if jk is None:
        E.prove(soln.jacobian is None, 'C11:outer:no-jacobian-when-no-run-returned-one')
    else:
        E.prove(soln.jacobian is not None, 'C11:outer:jacobian-present')
        if soln.jacobian is not None:
            J0 = runs[jk]['jac_copy']
            exp = [[(J0[j, i] if sc is None else J0[j, i] / sc[1][i]) for i in range(n)] for j in range(m)]
            E.prove(E.all([E.eq(soln.jacobian[j, i], exp[j][i]) for j in range(m) for i in range(n)]),
                    'C11:outer:jacobian-columns-unscaled-exactly-once')
            E.prove(E.all([p == q for p, q in zip(E.flat(soln.jacmin_eval_nums), E.flat(runs[jk]['ret'][11]))]),
                    'C11:outer:jacobian-eval-numbers-from-the-same-run')
        if jk != best:
            E.reach('C11:outer:jacobian-from-an-older-run-than-x')
    # ---- C10: flag / message
    lim = 2
    if 'unsuccessful restarts' in soln.msg:
        E.prove(restarts and len(runs) - 1 - best >= lim, 'C10:outer:max-unsuccessful-restarts-message-is-true')
    else:
        E.prove(soln.flag == last[8].flag, 'C10:outer:flag-is-the-last-runs-flag')
    E.prove(isinstance(soln.msg, str) and len(soln.msg) > 0, 'C07:outer:message-non-empty')
    try:
        txt = E.get('OptimResults').__str__(soln) if E.symbolic else str(soln)
    except Exception as e:     # noqa
        E.fail('C07:outer:printing-raises-' + type(e).__name__)
    # restart admission: a run ended although a restart was due?
    if restarts and len(runs) < max_runs:
        lastkind = runs[-1]['kind']
        restartable = lastkind in (1, 3, 4, 5, 6)
        unsuccessful = len(runs) - 1 - best
        E.prove(E.implies(E.all([restartable, last[5] < maxfun]), unsuccessful >= lim), 'C10:outer:stops-restarting-only-for-a-reason')


FUNCS = ['solver.solve', 'solver.OptimResults', 'util.apply_scaling', 'util.remove_scaling', 'controller.ExitInformation',
         'params.ParameterList']


def outer_harnesses(tier, seed, pid):
    hs = []
    combos = [(1, 1, False, False, True), (1, 1, True, True, True), (1, 1, False, True, False)] if tier == 'quick' else \
        [(1, 1, False, False, True), (1, 1, True, True, True), (2, 1, True, True, True), (1, 2, False, True, True),
         (2, 2, False, False, False), (1, 1, True, True, False), (1, 1, False, True, False), (2, 1, False, True, False)]
    if pid in ('C08', 'C10'):
        for old_rk in (True, False):
            hs.append(Harness("outer[n=1,m=1,hard-restarts,old_rk=%d,bad-values]" % old_rk, 'dfverif.outer', 'body',
                              params=dict(n=1, m=1, scaling=False, bounds=False, restarts=True, max_runs=3, use_old_rk=old_rk, increase_npt=False, xr=True),
                              cfg=core.Cfg(qtimeout_ms=20000, uflin=True), functions=FUNCS, home='OUTER',
                              bounds="n=1, m=1, at most 3 runs, every run's objective NaN / +inf / finite",
                              assumptions=["solve_main replaced by its summary; objective values NaN, +inf or >= 0"], nproc=None, max_replays=3, wall_budget=300))
    if pid == 'C19':
        hs.append(Harness("outer[n=1,m=1,noisy-objective,user_params-given]", 'dfverif.outer', 'body',
                          params=dict(n=1, m=1, scaling=False, bounds=False, restarts=False, max_runs=3, noise=True),
                          cfg=core.Cfg(qtimeout_ms=20000, uflin=True), functions=FUNCS, home='OUTER',
                          bounds="n=1, m=1, objfun_has_noise=True, a user_params dictionary without noise levels", assumptions=["solve_main replaced by its summary"],
                          nproc=None, max_replays=3, wall_budget=200))
    for (n, m, scaling, bounds, restarts) in combos:
        variants = [(True, False)] if tier == 'quick' else [(True, False), (False, False), (True, True)]
        for (old_rk, inc) in (variants if restarts else [(True, False)]):
            name = "outer[n=%d,m=%d,scaling=%d,bounds=%d,hard-restarts=%d,old_rk=%d,inc_npt=%d]" % (n, m, scaling, bounds, restarts, old_rk, inc)
            hs.append(Harness(name, 'dfverif.outer', 'body',
                              params=dict(n=n, m=m, scaling=scaling, bounds=bounds, restarts=restarts, max_runs=3, use_old_rk=old_rk, increase_npt=inc),
                              cfg=core.Cfg(qtimeout_ms=20000, uflin=True), functions=FUNCS, home='OUTER',
                              bounds="n=%d, m=%d, at most 3 runs (the third ends on the budget), restarts.max_unsuccessful_restarts=2" % (n, m),
                              assumptions=["solve_main replaced by its summary: nf_so_far(+1) <= nf <= maxfun, nx likewise, nruns+1, x inside the (scaled) box, "
                                           "xmin_eval_num in [1,nx], any exit kind, any objective value (established per run by STEP and the x0-block harness)",
                                           "objective values finite (NaN merge rule is covered by C08)"],
                              nproc=None, max_replays=3, wall_budget=(200 if tier == 'quick' else 900)))
    return hs
