"""pytest plugin: records concrete calls of dfols functions during the repository's own test-suite (shim validation)"""
import os
import pickle
import numpy as np

OUT = os.environ.get('DFVERIF_RECORD')
LIMIT = int(os.environ.get('DFVERIF_RECORD_LIMIT', '40'))
REC = {}

FUNCS = {
    'dfols.util': ['sumsq', 'model_value', 'get_scale', 'apply_scaling', 'remove_scaling', 'pball', 'pbox', 'dykstra_box_ball'],
    'dfols.trust_region': ['trsbox', 'trsbox_geometry', 'trsbox_linear', 'ball_step', 'd_within_bounds'],
}


def _plain(x, keep0d=False):
    if isinstance(x, np.ndarray):
        return x.copy()
    if isinstance(x, np.floating):
        return np.array(x) if keep0d else x.item()     # numpy scalars have array methods (.copy()): 0-d arrays for method arguments
    if isinstance(x, (np.integer, np.bool_)):
        return x.item()
    if isinstance(x, (list, tuple)):
        t = [_plain(v) for v in x]
        return tuple(t) if isinstance(x, tuple) else t
    if isinstance(x, (int, float, bool, str)) or x is None:
        return x
    raise TypeError(type(x))


def _wrap(mod, name):
    orig = getattr(mod, name)

    def wrapped(*a, **k):
        try:
            ain, kin = _plain(list(a)), {kk: _plain(v) for kk, v in k.items()}
        except TypeError:
            return orig(*a, **k)
        res = orig(*a, **k)
        lst = REC.setdefault(name, [])
        if len(lst) < LIMIT:
            try:
                lst.append((ain, kin, _plain(res)))
            except TypeError:
                pass
        return res
    wrapped.__wrapped__ = orig
    return wrapped


MODEL_METHODS = ['change_point', 'add_new_sample', 'add_new_point', 'swap_points', 'shift_base', 'save_point', 'get_final_results',
                 'xpt', 'as_absolute_coordinates', 'distances_to_xopt', 'xpt_directions', 'interpolation_matrix', 'model_value',
                 'build_full_model', 'interpolate_mini_models_svd', 'lagrange_gradient', 'min_objective_value']


def _snap(obj):
    d = {}
    for k, v in obj.__dict__.items():
        if k in ('Q', 'R'):
            continue     # the cached factorisation is LAPACK output (sign conventions may differ): results are compared instead
        try:
            d[k] = _plain(v)
        except TypeError:
            if k == 'h' and v is None:
                d[k] = None
            else:
                return None
    return d


_DEPTH = [0]


def _wrap_method(cls, name):
    orig = getattr(cls, name)

    def wrapped(self, *a, **k):
        lst = REC.setdefault('Model.' + name, [])
        if _DEPTH[0] > 0 or len(lst) >= LIMIT or self.h is not None or self.projections:
            return orig(self, *a, **k)
        before = _snap(self)
        try:
            ain, kin = [_plain(v, keep0d=True) for v in a], {kk: _plain(v, keep0d=True) for kk, v in k.items()}
        except TypeError:
            before = None
        _DEPTH[0] += 1
        try:
            res = orig(self, *a, **k)
        finally:
            _DEPTH[0] -= 1
        if before is not None:
            after = _snap(self)
            try:
                if after is not None:
                    lst.append((before, ain, kin, _plain(res), after))
            except TypeError:
                pass
        return res
    return wrapped


def pytest_configure(config):
    if not OUT:
        return
    import importlib
    mods = {m: importlib.import_module(m) for m in FUNCS}
    allmods = [importlib.import_module('dfols.' + n) for n in ('util', 'trust_region', 'model', 'controller', 'solver', 'diagnostic_info')]
    for m, names in FUNCS.items():
        for n in names:
            if not hasattr(mods[m], n):
                continue
            w = _wrap(mods[m], n)
            for am in allmods:
                if getattr(am, n, None) is getattr(mods[m], n):
                    setattr(am, n, w)
            setattr(mods[m], n, w)

    # stateful: methods of Model (object state snapshotted before and after the call)
    Model = importlib.import_module('dfols.model').Model
    for n in MODEL_METHODS:
        setattr(Model, n, _wrap_method(Model, n))


def pytest_unconfigure(config):
    if OUT:
        with open(OUT, 'wb') as f:
            pickle.dump(REC, f)
