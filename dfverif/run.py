import os
import sys
import importlib


def main(argv):
    if len(argv) >= 2 and argv[0] == '--replay':
        from . import harness
        return harness.replay_file(argv[1])
    pid = argv[0]
    tier = argv[1] if len(argv) > 1 else os.environ.get('VERIF_TIER', 'quick')
    seed = int(os.environ.get('VERIF_SEED', '0') or 0)
    os.environ['VERIF_TIER_EFFECTIVE'] = tier
    mod = importlib.import_module('dfverif.checks.' + pid.lower())
    try:
        return mod.run(tier, seed)
    except Exception as e:
        import traceback
        traceback.print_exc()
        print("HARNESS-ERROR property=%s %s: %s" % (pid, type(e).__name__, e))
        return 2


if __name__ == '__main__':
    sys.exit(main(sys.argv[1:]))
