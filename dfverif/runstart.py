"""
RUN-START - the real solve_main from its entry to the first iteration of the main loop: x0 sampling, Controller/Model
construction, initialise_coordinate_directions / initialise_random_directions.  Only the objective (fresh residuals), the
random direction generators (contract) and the first call of interpolate_mini_models_svd (ends the path) are stubs.
Obligations: numbering of evaluation points (C03/C11), counters (C02), box (C01), best point (C04), no RNG (C19).
"""
from . import core
from .harness import Harness, Stop
from .state import mk_params, mk_objfun, EvalLog, mk_h
from .checks.c02 import parse_eval_log


def body(E, n, m, npt, restart, recycled, parallel=False, random_init=False):
    np = E.np
    log = EvalLog()
    objfun = mk_objfun(E, m, log)
    maxfun = E.int('maxfun', 1, None)
    params = mk_params(E, n, npt, maxfun)
    if random_init:
        params.params["init.random_initial_directions"] = True
    if parallel:
        params.params["init.run_in_parallel"] = True
    nf0 = E.int('nf0', 0 if not restart else 1, None if restart else 0)
    nx0 = E.int('nx0', 0 if not restart else 1, None if restart else 0)
    nruns0 = E.int('nruns0', 0 if not restart else 1, None if restart else 0)
    E.assume(E.all([nx0 <= nf0, nf0 < maxfun]))
    x0 = E.vec('x0_', n)
    xl = E.vec('xl', n)
    xu = E.vec('xu', n)
    rhobeg = E.real('rhobeg', npy=False)
    E.assume(E.all([rhobeg > 0, rhobeg <= 1000] + [xl[i] <= x0[i] for i in range(n)] + [x0[i] <= xu[i] for i in range(n)] +
                   [xu[i] - xl[i] >= 2 * rhobeg for i in range(n)]))
    x0_true_num = E.int('x0num', 1, None)     # (restart) the point number at which x0 was evaluated in the earlier run
    E.assume(x0_true_num <= nx0 if restart else x0_true_num == 1)
    logged = []
    E.hooks(log=lambda level, msg: logged.append(parse_eval_log(msg)), rng=_no_rng(E, logged))
    rnd = []

    def rnd_dirs(num_pts, delta, lower, upper, with_neg_dirns=True):
        rnd.append(1)
        num_pts = int(num_pts)
        D = E.mat('rd', num_pts, n)
        E.assume(E.all([lower[i] <= D[k, i] for k in range(num_pts) for i in range(n)] + [D[k, i] <= upper[i] for k in range(num_pts) for i in range(n)]))
        return D
    E.patch('random_directions_within_bounds', rnd_dirs)
    E.patch('random_orthog_directions_within_bounds', rnd_dirs)
    state = {}

    def interp(self, *a, **k):
        state['model'] = self
        raise Stop('main-loop')
    E.patch_attr(E.get('Model'), 'interpolate_mini_models_svd', interp)
    kw = {}
    r_old = None
    if recycled:
        r_old = E.vec('rold', m)
        kw = dict(r0_avg_old=r_old, r0_nsamples_old=1)
        # solve hands the restart point's evaluation number over (when the code has such a parameter at all)
        import inspect
        if 'x0_eval_num_old' in inspect.signature(E.get('solve_main')).parameters:
            kw['x0_eval_num_old'] = x0_true_num
    ret = None
    try:
        ret = E.get('solve_main')(objfun, x0, (), xl, xu, [], npt, rhobeg, rhobeg / 1000, maxfun, nruns0, nf0, nx0, lambda *a: 1, params, None, None,
                                  None, None, (), None, (), do_logging=True, default_growing_method_set_by_user=True, **kw)
    except Stop:
        pass
    pairs = [t for t in logged if t is not None]
    E.prove(len(pairs) == len(log.calls), 'C02:start:one-log-line-per-evaluation')
    recs = []
    for c, (en, pn) in zip(log.calls, pairs):
        recs.append({'x': c['x'], 'r': c['r'], 'pt': pn, 'ev': en})
    for k, R in enumerate(recs):
        E.prove(E.all([R['ev'] == nf0 + k + 1, R['pt'] == nx0 + k + 1]), 'C02:start:evaluations-and-points-numbered-consecutively')
        E.prove(E.all([xl[i] <= R['x'][i] for i in range(n)] + [R['x'][i] <= xu[i] for i in range(n)]), 'C01:start:evaluated-point-in-box')
    E.prove(len(rnd) == 0 or random_init, 'C19:start:no-random-directions-in-the-default-initialisation')
    if ret is not None:
        x, rvec, obj, jac, cnt, nf1, nx1, nruns1, ei, di, xnum, jnums = ret
        E.prove(E.all([nf1 == nf0 + len(recs), nx1 == nx0 + len(recs)]), 'C02:start:returned-counters-count-the-evaluations')
        E.prove(nruns1 == nruns0 + 1, 'C10:start:nruns-incremented-once')
        hit = [E.all([E.eq(x[i], R['x'][i]) for i in range(n)] + [E.eq(rvec[j], R['r'][j]) for j in range(m)] + [xnum == R['pt']]) for R in recs]
        if recycled:
            hit.append(E.all([E.eq(x[i], x0[i]) for i in range(n)] + [E.eq(rvec[j], r_old[j]) for j in range(m)] + [xnum == x0_true_num]))
        E.prove(E.any(hit), 'C03:start:early-exit-returns-an-evaluated-point-with-its-own-number[restart=%d,recycled=%d]' % (restart, recycled))
        for R in recs:
            E.prove(E.le(obj, sum(v * v for v in E.flat(R['r']))), 'C04:start:early-exit-not-worse-than-any-evaluated-point')
        return
    M = state['model']
    E.prove(M.npt() == npt, 'C14:start:initial-set-complete')
    for k in range(M.npt()):
        xk = M.xpt(k, abs_coordinates=True)
        hit = [E.all([E.eq(xk[i], R['x'][i]) for i in range(n)] + [E.eq(M.fval_v[k, j], R['r'][j]) for j in range(m)] + [M.eval_num[k] == R['pt']]) for R in recs]
        if recycled:
            hit.append(E.all([E.eq(xk[i], x0[i]) for i in range(n)] + [E.eq(M.fval_v[k, j], r_old[j]) for j in range(m)] + [M.eval_num[k] == x0_true_num]))
        site = 'x0' if k == 0 else 'point'
        E.prove(E.any(hit), 'C03:start:slot-holds-an-evaluated-point-with-its-own-number[%s,restart=%d,recycled=%d,parallel=%d]' % (site, restart, recycled, parallel))
    kopt = int(M.kopt)
    E.prove(E.all([E.no(M.objval[k] < M.objval[kopt]) for k in range(M.npt())]), 'C04:start:incumbent-is-the-best-initial-point')


def _no_rng(E, logged):
    def rng(kind, size, **kw):
        raise core.PathAbort('unsupported', 'direct RNG use in the run start')
    return rng


FUNCS = ['solver.solve_main', 'controller.Controller.__init__', 'model.Model.__init__', 'controller.Controller.initialise_coordinate_directions',
         'controller.Controller.initialise_random_directions', 'controller.Controller.evaluate_objective', 'model.Model.change_point']


def start_harnesses(tier, seed, pid):
    hs = []
    combos = [(1, 1, 2, False, False, False, False), (1, 1, 2, True, False, False, False), (1, 1, 2, True, True, False, False)]
    if tier != 'quick':
        combos += [(2, 1, 3, False, False, False, False), (2, 1, 5, True, False, False, False), (1, 1, 3, True, True, False, False),
                   (2, 1, 3, False, False, True, True), (2, 1, 3, False, False, False, True)]
    elif pid in ('C03', 'C11'):
        combos += [(2, 1, 3, False, False, True, True)]
    for (n, m, npt, restart, recycled, parallel, random_init) in combos:
        hs.append(Harness("run-start[n=%d,m=%d,npt=%d,restart=%d,recycled=%d,parallel=%d,random=%d]" % (n, m, npt, restart, recycled, parallel, random_init),
                          'dfverif.runstart', 'body', params=dict(n=n, m=m, npt=npt, restart=restart, recycled=recycled, parallel=parallel, random_init=random_init),
                          cfg=core.Cfg(qtimeout_ms=20000, uflin=True), functions=FUNCS, home='START',
                          bounds="n=%d, m=%d, npt=%d; any counters on entry (nx0 <= nf0 < maxfun), any x0 in any box with gap >= 2*rhobeg, one sample per point" % (n, m, npt),
                          assumptions=["objective stub: fresh residual vector per call", "random direction generators by contract (directions inside the box)",
                                       "ends at the first model fit of the main loop"], nproc=None, wall_budget=(200 if tier == 'quick' else 900)))
    return hs
