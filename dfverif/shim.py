"""
Module-level shims: `np`, `LA` (scipy.linalg), `STAT`, `math` functions, builtins, logging.
LAPACK-level routines are delegated to real numpy/scipy when their inputs are concrete and are
otherwise routed to a harness-supplied hook (contract stub); without a hook the path aborts
as 'unsupported' (never a verdict).
"""
import math
import sys as _sys
from fractions import Fraction

import numpy as _np
import scipy.linalg as _LA
import z3

from . import core
from . import sym
from . import arr
from .sym import SInt, SFloat, SBool, SFP, ite, wrapb, braw
from .arr import SArr


class Hooks(object):
    """per-harness environment stubs"""
    def __init__(self):
        self.rng = None        # fn(kind, size, **kw) -> SArr / scalar
        self.la = None         # fn(name, args, kwargs) -> result or NotImplemented
        self.log = None        # fn(level, msg)
        self.warn = None
        self.fmt = None        # list collecting formatting / str() calls (C20)
        self.float_sqrt = False  # concrete sqrt evaluated in floating point (as the real code does) instead of exactly
        self.norm_positive = False  # assume ||v|| > 0 for every vector norm taken by the code (e.g. a random direction is never exactly in the span of the old ones)
        self.range_cap = None  # bound on every range() of the loaded code (loop unrolling bound, stated per harness)


HOOKS = Hooks()


def _concrete_scalar(v):
    if isinstance(v, SFloat):
        # constant NaN / +-inf
        return (v.nan is True or v.nan is False) and isinstance(v.inf, int) and (v.nan or v.inf != 0)
    return isinstance(v, (int, Fraction, float, bool)) and not isinstance(v, SInt)


def _tofloat_scalar(v):
    if isinstance(v, SFloat):
        return float('nan') if v.nan is True else float('inf') * v.inf
    return float(v)


def all_concrete(*xs):
    for x in xs:
        if isinstance(x, SArr):
            if not all(_concrete_scalar(v) for v in x.flat()):
                return False
        elif isinstance(x, (SInt, SFloat, SBool, SFP)):
            return False
    return True


def to_numpy(x):
    if isinstance(x, SArr):
        return _np.array([_tofloat_scalar(v) for v in x.flat()], dtype=float).reshape(x.shape)
    return _tofloat_scalar(x)


def from_numpy(a):
    a = _np.asarray(a)
    if a.ndim == 0:
        return arr._fl(float(a))
    if a.dtype.kind in 'iu':
        return SArr.from_flat([int(v) for v in a.flatten()], a.shape, 'i')
    return SArr.from_flat([float(v) for v in a.flatten()], a.shape, 'f')


def _la_call(name, real_fn, args, kwargs):
    if all_concrete(*args):
        res = real_fn(*[to_numpy(a) if isinstance(a, SArr) else a for a in args], **kwargs)
        if isinstance(res, tuple):
            return tuple(from_numpy(r) for r in res)
        return from_numpy(res)
    if HOOKS.la is not None:
        r = HOOKS.la(name, args, kwargs)
        if r is not NotImplemented:
            return r
    raise core.PathAbort('unsupported', 'LAPACK-level call %s on symbolic data without a contract stub' % name)


# ---------------------------------------------------------------------------------------
# builtins

def b_float(x=0):
    return sym.tofloat(x)


b_float._dt = 'f'


def b_int(x=0):
    if isinstance(x, SFloat):
        return arr.sym_int(x)
    if isinstance(x, SInt):
        return x
    if isinstance(x, SBool):
        return x._as_int()
    if isinstance(x, Fraction):
        return int(x)
    return int(x)


b_int._dt = 'i'


def b_abs(x):
    if isinstance(x, SArr):
        return abs(x)
    return sym.f_abs(x)


def _flatten_args(args):
    if len(args) == 1 and isinstance(args[0], (list, tuple, SArr)):
        a = args[0]
        return list(a.flat()) if isinstance(a, SArr) else list(a)
    return list(args)


def b_max(*args, **kw):
    vals = _flatten_args(args)
    if not vals:
        raise ValueError("max() arg is an empty sequence")
    r = vals[0]
    p = core.CUR
    if p is not None and not p.cfg.ite_minmax:
        for v in vals[1:]:
            if v > r:
                r = v
        return r
    for v in vals[1:]:
        if not sym.is_sym(v) and not sym.is_sym(r):
            r = v if v > r else r
        else:
            r = sym.f_max2(r, v)
    return r


def b_min(*args, **kw):
    vals = _flatten_args(args)
    if not vals:
        raise ValueError("min() arg is an empty sequence")
    r = vals[0]
    p = core.CUR
    if p is not None and not p.cfg.ite_minmax:
        for v in vals[1:]:
            if v < r:
                r = v
        return r
    for v in vals[1:]:
        if not sym.is_sym(v) and not sym.is_sym(r):
            r = v if v < r else r
        else:
            r = sym.f_min2(r, v)
    return r


def b_sum(xs, start=0):
    r = start
    for x in xs:
        r = r + x
    return r


def b_isinstance(x, t):
    ts = t if isinstance(t, tuple) else (t,)
    for tt in ts:
        dt = getattr(tt, '_dt', None)
        if dt == 'f':
            tt = float
        elif dt == 'i':
            tt = int
        if tt is float:
            if isinstance(x, (Fraction, SFloat, SFP, float)):
                return True
        elif tt is int:
            if isinstance(x, (SInt, SBool)) or isinstance(x, int):
                return True
        elif tt is bool:
            if isinstance(x, (SBool, bool)):
                return True
        elif isinstance(x, tt):
            return True
    return False


def b_len(x):
    return len(x)


def b_range(*a):
    r = range(*[arr.cidx(v) for v in a])
    if HOOKS.range_cap is not None and len(r) > HOOKS.range_cap:
        p = core.CUR
        if p is not None:
            p.reached.add('range-capped')
        return r[:HOOKS.range_cap]
    return r


def b_str(x=''):
    if HOOKS.fmt is not None:
        HOOKS.fmt.append(('str', x))
    if isinstance(x, (SArr, SInt, SFloat, SBool, SFP)):
        return "<sym>"
    if isinstance(x, Fraction):
        return repr(float(x))
    return str(x)


def b_all(xs):
    return wrapb(sym.b_and(*[braw(x) if isinstance(x, (SBool, bool)) else bool(x) for x in xs]))


def b_any(xs):
    return wrapb(sym.b_or(*[braw(x) if isinstance(x, (SBool, bool)) else bool(x) for x in xs]))


def b_round(x, nd=None):
    return x


class FmtRecord(str):
    """result of "template" % args when some argument is symbolic; keeps the arguments"""
    def __new__(cls, template, args):
        s = str.__new__(cls, "<fmt:%s>" % template)
        s.template = template
        s.args = args
        return s

    def __add__(self, o):
        r = FmtRecord(self.template + "+", self.args)
        return r

    def __contains__(self, item):
        return item in self.template


def _fmt(template, args):
    tup = args if isinstance(args, tuple) else (args,)
    if HOOKS.fmt is not None:
        HOOKS.fmt.append((template, tup))
    if any(isinstance(a, (SInt, SFloat, SBool, SFP, SArr)) for a in tup):
        # formatting uses representative values, so e.g. "%g" % None still raises exactly as in CPython
        reps = tuple(1.5 if isinstance(a, (SFloat, SFP)) else 1 if isinstance(a, SInt) else True if isinstance(a, SBool)
                     else "<arr>" if isinstance(a, SArr) else float(a) if isinstance(a, Fraction) else a for a in tup)
        template % (reps if isinstance(args, tuple) else reps[0])
        return FmtRecord(template, tup)
    conv = tuple(float(a) if isinstance(a, Fraction) else a for a in tup)
    # %d / %i of None etc. must raise as in CPython
    return template % (conv if isinstance(args, tuple) else conv[0])


def _CF(s):
    """float literal of the source -> exact rational of the double it denotes"""
    return Fraction(float(s))


# ---------------------------------------------------------------------------------------
# math

def m_sqrt(x):
    if isinstance(x, SArr):
        raise TypeError("only size-1 arrays can be converted to Python scalars")
    if HOOKS.float_sqrt and isinstance(x, (int, Fraction)) and x >= 0:
        return Fraction(math.sqrt(float(x)))
    r = sym.f_sqrt(x, np_sem=False)
    return sym.tofloat(r) if isinstance(r, SFloat) else r


def m_log(x):
    if isinstance(x, (int, Fraction)):
        if x <= 0:
            raise ValueError("math domain error")
        return Fraction(math.log(float(x)))
    return sym.f_log(x)


def m_ceil(x):
    if isinstance(x, (int, Fraction)):
        return math.ceil(x)
    if isinstance(x, SFloat):
        if not x.surely_finite():
            if bool(sym.f_isnan(x)):
                raise ValueError("cannot convert float NaN to integer")
            if bool(sym.f_isinf(x)):
                raise OverflowError("cannot convert float infinity to integer")
        p = core.CUR
        k = z3.Int(p.fresh_name('ceil'))
        vz = sym._zr(x.v)
        p.axiom(z3.And(z3.ToReal(k) >= vz, z3.ToReal(k) < vz + 1))
        return SInt(k)
    return math.ceil(x)


def m_isnan(x):
    r = sym.f_isnan(x)
    return r


class _FloatInfo(object):
    max = Fraction(_sys.float_info.max)
    min = Fraction(_sys.float_info.min)
    epsilon = Fraction(_sys.float_info.epsilon)


class _Sys(object):
    float_info = _FloatInfo()


class _Math(object):
    sqrt = staticmethod(m_sqrt)
    log = staticmethod(m_log)
    ceil = staticmethod(m_ceil)
    isnan = staticmethod(m_isnan)
    inf = sym.PINF
    nan = sym.NAN
    pi = Fraction(math.pi)


# ---------------------------------------------------------------------------------------
# numpy

def _shape_arg(shape):
    if isinstance(shape, (int, SInt)):
        return (arr.cidx(shape),)
    return tuple(arr.cidx(s) for s in shape)


class _Random(object):
    @staticmethod
    def normal(loc=0.0, scale=1.0, size=None):
        if HOOKS.rng is None:
            raise core.PathAbort('unsupported', 'np.random.normal without an rng hook')
        return HOOKS.rng('normal', _shape_arg(size) if size is not None else None)

    @staticmethod
    def randint(low, high=None, size=None):
        if HOOKS.rng is None:
            raise core.PathAbort('unsupported', 'np.random.randint without an rng hook')
        return HOOKS.rng('randint', _shape_arg(size) if size is not None else None, low=low, high=high)

    @staticmethod
    def seed(s=None):
        if HOOKS.rng is not None:
            HOOKS.rng('seed', None)


class _Linalg(object):
    LinAlgError = _np.linalg.LinAlgError

    @staticmethod
    def norm(x, ord=None, axis=None, keepdims=False):
        x = arr.asarr(x)
        if axis is not None and x.ndim == 2 and ord in (None, 2):
            ax = axis if axis >= 0 else axis + 2
            rows = [x[i, :] if ax == 1 else x[:, i] for i in range(x.shape[1 - ax])]
            out = SArr.from_flat([_Linalg.norm(r_) for r_ in rows], (len(rows),), 'f')
            if keepdims:
                out = out.reshape((len(rows), 1) if ax == 1 else (1, len(rows)))
            return out
        if axis is not None and x.ndim == 1 and axis in (0, -1):
            axis = None
        if axis is not None:
            raise core.PathAbort('unsupported', 'norm axis=%r ndim=%d' % (axis, x.ndim))
        if x.ndim == 1 and ord in (None, 2):
            r = arr.vec_norm(x)
            if HOOKS.norm_positive and core.CUR is not None and isinstance(r, SFloat):
                core.CUR.assume(sym.bterm(r > 0))
            return r
        if x.ndim == 2 and ord in ('fro', None):
            return arr.vec_norm(x.flatten())
        if x.ndim == 2 and ord == 2:
            if x.shape == (1, 1):
                return arr._asnp(sym.f_abs(x.flat()[0]))
            return _la_call('norm2', lambda a: _np.linalg.norm(a, 2), (x,), {})
        raise core.PathAbort('unsupported', 'norm ord=%r ndim=%d' % (ord, x.ndim))

    @staticmethod
    def cond(x):
        return _la_call('cond', _np.linalg.cond, (arr.asarr(x),), {})

    @staticmethod
    def qr(a, mode='reduced'):
        a = arr.asarr(a)
        if mode == 'reduced' and a.shape == (1, 1) and HOOKS.la is None:
            pass
        return _la_call('np.qr', lambda m: tuple(_np.linalg.qr(m, mode=mode)), (a,), {'mode': mode} if False else {})


class _NP(object):
    inf = sym.PINF
    nan = sym.NAN
    pi = Fraction(math.pi)
    float64 = _np.float64
    int64 = _np.int64
    bool_ = _np.bool_
    ndarray = SArr
    linalg = _Linalg()
    random = _Random()
    newaxis = None

    @staticmethod
    def zeros(shape, dtype=float):
        return SArr.new(_shape_arg(shape), 0, arr._dtype_code(dtype))

    @staticmethod
    def ones(shape, dtype=float):
        return SArr.new(_shape_arg(shape), 1, arr._dtype_code(dtype))

    @staticmethod
    def empty(shape, dtype=float):
        return SArr.new(_shape_arg(shape), 0, arr._dtype_code(dtype))

    @staticmethod
    def eye(n, dtype=float):
        n = arr.cidx(n)
        a = SArr.new((n, n), 0, 'f')
        for i in range(n):
            a[i, i] = 1
        return a

    @staticmethod
    def arange(*a):
        vals = list(range(*[arr.cidx(v) for v in a]))
        return SArr.from_flat(vals, (len(vals),), 'i')

    @staticmethod
    def array(obj, dtype=None):
        d = arr._dtype_code(dtype) if dtype is not None else None
        if d == 'f' and isinstance(obj, (list, tuple)):
            obj = _none_to_nan(obj)
        return SArr.from_nested(obj, d)

    @staticmethod
    def asarray(obj, dtype=None):
        # numpy.asarray does NOT copy an array that already has the requested dtype
        if isinstance(obj, SArr) and (dtype is None or arr._dtype_code(dtype) == obj.dtype):
            return obj
        return _NP.array(obj, dtype)

    @staticmethod
    def copy(a):
        return arr.asarr(a).copy()

    @staticmethod
    def shape(a):
        if isinstance(a, SArr):
            return a.shape
        if isinstance(a, (list, tuple)):
            return arr.asarr(a).shape
        return ()

    @staticmethod
    def size(a):
        return arr.asarr(a).size if arr._isarr(a) else 1

    dot = staticmethod(arr.dot)
    sum = staticmethod(arr.np_sum)
    mean = staticmethod(arr.np_mean)
    max = staticmethod(arr.np_max)
    min = staticmethod(arr.np_min)
    amax = staticmethod(arr.np_max)
    amin = staticmethod(arr.np_min)
    any = staticmethod(arr.np_any)
    all = staticmethod(arr.np_all)
    where = staticmethod(arr.np_where)
    append = staticmethod(arr.np_append)
    delete = staticmethod(arr.np_delete)
    allclose = staticmethod(arr.np_allclose)
    isclose = staticmethod(arr.np_isclose)
    argsort = staticmethod(arr.np_argsort)

    @staticmethod
    def argmin(a):
        return arr.np_argbest(a, lambda x, y: x < y)

    @staticmethod
    def argmax(a):
        return arr.np_argbest(a, lambda x, y: x > y)

    @staticmethod
    def nanargmin(a):
        return arr.np_nanargbest(a, lambda x, y: x < y)

    @staticmethod
    def nanargmax(a):
        return arr.np_nanargbest(a, lambda x, y: x > y)

    @staticmethod
    def abs(a):
        return arr._map(a, sym.f_abs)

    absolute = abs

    @staticmethod
    def sqrt(a):
        return arr._map(a, lambda v: arr._asnp(sym.f_sqrt(v, np_sem=True)), 'f')

    @staticmethod
    def log(a):
        return arr._map(a, m_log, 'f')

    @staticmethod
    def square(a):
        return arr._map(a, lambda v: v * v)

    @staticmethod
    def isnan(a):
        return arr._map(a, sym.f_isnan, 'b')

    @staticmethod
    def isfinite(a):
        return arr._map(a, sym.f_isfinite, 'b')

    @staticmethod
    def isinf(a):
        return arr._map(a, sym.f_isinf, 'b')

    @staticmethod
    def maximum(a, b):
        if not arr._isarr(a) and not arr._isarr(b):
            return np_maximum2s(a, b)
        return arr._binop(a, b, sym.np_maximum2)

    @staticmethod
    def minimum(a, b):
        if not arr._isarr(a) and not arr._isarr(b):
            return np_minimum2s(a, b)
        return arr._binop(a, b, sym.np_minimum2)

    @staticmethod
    def logical_or(a, b):
        return arr.asarr(a) | b

    @staticmethod
    def logical_and(a, b):
        return arr.asarr(a) & b

    @staticmethod
    def logical_not(a):
        return ~arr.asarr(a)

    @staticmethod
    def diag(a):
        a = arr.asarr(a)
        if a.ndim == 2:
            k = min(a.shape)
            return SArr.from_flat([a[i, i] for i in range(k)], (k,), a.dtype)
        n = a.shape[0]
        r = SArr.new((n, n), 0, a.dtype)
        for i in range(n):
            r[i, i] = a[i]
        return r

    @staticmethod
    def outer(a, b):
        a, b = arr.asarr(a), arr.asarr(b)
        return SArr.from_flat([x * y for x in a.flat() for y in b.flat()], (a.size, b.size), 'f')


def np_maximum2s(a, b):
    return arr._asnp(sym.np_maximum2(a, b))


def np_minimum2s(a, b):
    return arr._asnp(sym.np_minimum2(a, b))


def _none_to_nan(obj):
    if isinstance(obj, (list, tuple)):
        return [_none_to_nan(o) for o in obj]
    if obj is None:
        return sym.NAN
    return obj


np = _NP()


class _ScipyLA(object):
    LinAlgError = _np.linalg.LinAlgError

    @staticmethod
    def norm(x, ord=None):
        # scipy.linalg.norm has check_finite=True (numpy.linalg.norm has not)
        x = arr.asarr(x)
        if not bool(np.all(np.isfinite(x))):
            raise ValueError("array must not contain infs or NaNs")
        return _Linalg.norm(x, ord)

    @staticmethod
    def qr(a, mode='full', **kw):
        kw2 = dict(kw)
        kw2['mode'] = mode
        return _la_call('qr', lambda m, **k_: tuple(_LA.qr(m, **kw2)), (arr.asarr(a),), kw2)

    @staticmethod
    def solve_triangular(a, b, trans=0, **kw):
        return _la_call('solve_triangular', lambda A, B: _LA.solve_triangular(A, B, trans=trans),
                        (arr.asarr(a), arr.asarr(b)), {})

    @staticmethod
    def lstsq(a, b, **kw):
        return _la_call('lstsq', lambda A, B: tuple(_np.asarray(r) for r in _LA.lstsq(A, B)[:1]) + (0, 0, 0),
                        (arr.asarr(a), arr.asarr(b)), {})

    @staticmethod
    def svd(a, full_matrices=True, **kw):
        return _la_call('svd', lambda A: tuple(_LA.svd(A, full_matrices=full_matrices)), (arr.asarr(a),), {})

    @staticmethod
    def diagsvd(s, m, n):
        return _la_call('diagsvd', lambda S: _LA.diagsvd(S, m, n), (arr.asarr(s),), {})


LA = _ScipyLA()


class _Stat(object):
    @staticmethod
    def linregress(x, y):
        return _la_call('linregress', lambda X, Y: tuple(__import__('scipy.stats').stats.linregress(X, Y)[:5]),
                        (arr.asarr(x), arr.asarr(y)), {})


STAT = _Stat()


class Logger(object):
    def __init__(self):
        self.records = []

    def _log(self, level, msg):
        if HOOKS.log is not None:
            HOOKS.log(level, msg)

    def debug(self, msg, *a):
        self._log('debug', msg)

    def info(self, msg, *a):
        self._log('info', msg)

    def warning(self, msg, *a):
        self._log('warning', msg)

    def error(self, msg, *a):
        self._log('error', msg)


class _Warnings(object):
    @staticmethod
    def warn(msg, cat=None, **kw):
        if HOOKS.warn is not None:
            HOOKS.warn(msg, cat)


def base_namespace():
    ns = {
        '__name__': 'dfols_symbolic',
        'np': np, 'LA': LA, 'STAT': STAT, 'math': _Math(), 'sys': _Sys(), 'warnings': _Warnings(),
        'sqrt': m_sqrt, 'log': m_log, 'ceil': m_ceil,
        'module_logger': Logger(),
        'max': b_max, 'min': b_min, 'abs': b_abs, 'float': b_float, 'int': b_int,
        'isinstance': b_isinstance, 'len': b_len, 'range': b_range, 'sum': b_sum, 'str': b_str,
        'all': b_all, 'any': b_any,
        '_fmt': _fmt, '_CF': _CF,
        'USE_FORTRAN': False,
        'unicode': str,
        'RuntimeWarning': RuntimeWarning,
    }
    return ns
