"""
Builders for arbitrary (symbolic) states of the real dfols objects.  The same code builds the
concrete state in replay mode (E is then a ConcEnv and the classes are the imported ones).
"""


def mk_h(E, n, name='h'):
    """A replayable convex Lipschitz regulariser family: h(x) = lam * sum_i |x_i - c_i|, lam >= 0."""
    lam = E.real(name + '_lam', npy=False, lo=0)
    c = [E.real('%s_c%d' % (name, i), npy=False) for i in range(n)]
    calls = []

    def h(x, *args):
        calls.append((x, args))
        s = 0
        for i in range(n):
            d = x[i] - c[i]
            s = s + E.ite(d >= 0, d, -d)
        return lam * s
    h.calls = calls
    return h


def objective(E, M, rvec, xabs):
    """specification of the stored objective: sumsq(r) + h(x) (the repo's own sumsq is used)"""
    f = E.get('sumsq')(rvec)
    if M.h is not None:
        f = f + M.h(E.get('remove_scaling')(xabs, M.scaling_changes), *M.argsh)
    return f


def mk_model(E, n, m, num_pts, npt_so_far, with_h=False, xr=True, with_save=None, box=True, cnt_hi=3,
             nan_strong=True):
    """
    An arbitrary Model state satisfying the bookkeeping invariant:
      objval[k] = F(fval_v[k], xbase+points[k]);  kopt minimal (NaN-aware);  nsamples >= 1;
      eval numbers >= 1.  Returns (M, ghost) where ghost[k] = dict(x, mean, cnt, ev).
    """
    Model = E.get('Model')
    np = E.np
    xb = E.vec('xb', n)
    xl = E.vec('xl', n)
    xu = E.vec('xu', n)
    if box:
        E.assume(E.all([xl[i] <= xb[i] for i in range(n)] + [xb[i] <= xu[i] for i in range(n)]))
    r0 = E.vec('r0_', m, xr=xr)
    h = mk_h(E, n) if with_h else None
    M = Model(num_pts, xb, r0, xl, xu, [], 1, h=h, argsh=(), do_logging=False)
    M.npt_so_far = npt_so_far
    # slot 0 may also have moved away from the base point
    for k in range(npt_so_far):
        p = E.vec('p%d_' % k, n)
        if box:
            E.assume(E.all([M.sl[i] <= p[i] for i in range(n)] + [p[i] <= M.su[i] for i in range(n)]))
        M.points[k, :] = p
        if k > 0:
            M.fval_v[k, :] = E.vec('r%d_' % k, m, xr=xr)
        M.objval[k] = objective(E, M, M.fval_v[k, :], M.xbase + M.points[k, :])
        M.nsamples[k] = E.int('cnt%d' % k, 1, cnt_hi)
        M.eval_num[k] = E.int('ev%d' % k, 1, None)
    kopt = E.int('kopt', 0, npt_so_far - 1)
    kopt = int(kopt)
    M.kopt = kopt
    # incumbent is minimal: no stored objective strictly smaller; and not NaN if some value is not NaN
    E.assume(E.all([E.no(M.objval[k] < M.objval[kopt]) for k in range(npt_so_far)]))
    if xr and nan_strong:
        anyok = E.any([E.no(E.isnan(M.objval[k])) for k in range(npt_so_far)])
        E.assume(E.implies(anyok, E.no(E.isnan(M.objval[kopt]))))
    ghost = []
    for k in range(npt_so_far):
        ghost.append({'x': M.xbase + M.points[k, :], 'mean': M.fval_v[k, :].copy(), 'cnt': M.nsamples[k],
                      'ev': M.eval_num[k]})
    if with_save is None:
        with_save = E.is_true(E.bool('has_save'))
    if with_save:
        M.xsave = E.vec('xs', n)
        M.rsave = E.vec('rs', m, xr=xr)
        M.objsave = objective(E, M, M.rsave, M.xsave)
        M.nsamples_save = E.int('cnt_s', 1, cnt_hi)
        M.eval_num_save = E.int('ev_s', 1, None)
        M.jacsave = E.mat('js', m, n)
        M.jacsave_eval_nums = E.vec('jse', npt_so_far, dtype='i', lo=1)
    M.model_jac = E.mat('J', m, n)
    M.model_const = E.vec('c', m)
    M.model_jac_eval_nums = E.vec('je', npt_so_far, dtype='i', lo=1)
    return M, ghost


