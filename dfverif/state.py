"""
Builders for arbitrary (symbolic) states of the real dfols objects.  The same code builds the
concrete state in replay mode (E is then a ConcEnv and the classes are the imported ones).
"""


def mk_h(E, n, name='h'):
    """A replayable convex Lipschitz regulariser family: h(x) = lam * sum_i |x_i - c_i|, lam >= 0."""
    lam = E.real(name + '_lam', npy=False, lo=0)
    c = [E.real('%s_c%d' % (name, i), npy=False) for i in range(n)]
    calls = []

    def h(x, *args):
        calls.append((x, args))
        s = 0
        for i in range(n):
            d = x[i] - c[i]
            s = s + E.ite(d >= 0, d, -d)
        return lam * s
    h.calls = calls
    return h


def objective(E, M, rvec, xabs):
    """specification of the stored objective: sumsq(r) + h(x) (the repo's own sumsq is used)"""
    f = E.get('sumsq')(rvec)
    if M.h is not None:
        f = f + M.h(E.get('remove_scaling')(xabs, M.scaling_changes), *M.argsh)
    return f


def mk_model(E, n, m, num_pts, npt_so_far, with_h=False, xr=True, with_save=None, box=True, cnt_hi=3,
             nan_strong=True, kopt_minimal=True, scaling=False):
    """
    An arbitrary Model state satisfying the bookkeeping invariant:
      objval[k] = F(fval_v[k], xbase+points[k]);  kopt minimal (NaN-aware);  nsamples >= 1;
      eval numbers >= 1.  Returns (M, ghost) where ghost[k] = dict(x, mean, cnt, ev).
    """
    Model = E.get('Model')
    np = E.np
    xb = E.vec('xb', n)
    xl = E.vec('xl', n)
    xu = E.vec('xu', n)
    if box:
        E.assume(E.all([xl[i] <= xb[i] for i in range(n)] + [xb[i] <= xu[i] for i in range(n)]))
    r0 = E.vec('r0_', m, xr=xr)
    h = mk_h(E, n) if with_h else None
    sc = None
    if scaling:
        # internal scaling record (lower, upper - lower, upper) in user units: h is always evaluated at the UN-scaled point
        shift = E.vec('shift', n)
        scale = E.vec('scale', n)
        E.assume(E.all([scale[i] > 0 for i in range(n)]))
        sc = (shift, scale, shift + scale)
    M = Model(num_pts, xb, r0, xl, xu, [], 1, h=h, argsh=(), do_logging=False, scaling_changes=sc)
    M.npt_so_far = npt_so_far
    # slot 0 may also have moved away from the base point
    for k in range(npt_so_far):
        p = E.vec('p%d_' % k, n)
        if box:
            E.assume(E.all([M.sl[i] <= p[i] for i in range(n)] + [p[i] <= M.su[i] for i in range(n)]))
        M.points[k, :] = p
        if k > 0:
            M.fval_v[k, :] = E.vec('r%d_' % k, m, xr=xr)
        M.objval[k] = objective(E, M, M.fval_v[k, :], M.xbase + M.points[k, :])
        M.nsamples[k] = E.int('cnt%d' % k, 1, cnt_hi)
        M.eval_num[k] = E.int('ev%d' % k, 1, None)
    kopt = E.int('kopt', 0, npt_so_far - 1)
    kopt = int(kopt)
    M.kopt = kopt
    # incumbent is minimal: no stored objective strictly smaller; and not NaN if some value is not NaN
    if kopt_minimal:
        E.assume(E.all([E.no(M.objval[k] < M.objval[kopt]) for k in range(npt_so_far)]))
    if xr and nan_strong and kopt_minimal:
        anyok = E.any([E.no(E.isnan(M.objval[k])) for k in range(npt_so_far)])
        E.assume(E.implies(anyok, E.no(E.isnan(M.objval[kopt]))))
    ghost = []
    for k in range(npt_so_far):
        ghost.append({'x': M.xbase + M.points[k, :], 'mean': M.fval_v[k, :].copy(), 'cnt': M.nsamples[k],
                      'ev': M.eval_num[k]})
    if with_save is None:
        with_save = E.is_true(E.bool('has_save'))
    if with_save:
        M.xsave = E.vec('xs', n)
        M.rsave = E.vec('rs', m, xr=xr)
        M.objsave = objective(E, M, M.rsave, M.xsave)
        M.nsamples_save = E.int('cnt_s', 1, cnt_hi)
        M.eval_num_save = E.int('ev_s', 1, None)
        M.jacsave = E.mat('js', m, n)
        M.jacsave_eval_nums = E.vec('jse', npt_so_far, dtype='i', lo=1)
    M.model_jac = E.mat('J', m, n)
    M.model_const = E.vec('c', m)
    M.model_jac_eval_nums = E.vec('je', npt_so_far, dtype='i', lo=1)
    if not kopt_minimal:
        # weaker, inductive form: the better of incumbent and saved point is a lower bound of every stored objective
        # (the incumbent itself may have been overwritten by a worse point after its value was saved)
        F = final_obj_spec(E, M)
        E.assume(E.all([E.no(M.objval[k] < F) for k in range(npt_so_far)]))
        if xr:
            anyok = E.any([E.no(E.isnan(M.objval[k])) for k in range(npt_so_far)])
            E.assume(E.implies(anyok, E.no(E.isnan(F))))
    return M, ghost


def final_obj_spec(E, M):
    """specification of the value get_final_results must report: the better of incumbent and saved point (no fork)"""
    fo = M.objval[int(M.kopt)]
    if M.objsave is None:
        return fo
    fs = M.objsave
    use_opt = E.any([fo <= fs, E.all([E.isnan(fs), E.no(E.isnan(fo))])])
    return E.ite(use_opt, fo, fs)




# ---------------------------------------------------------------------------------------
# Controller / solver state

PRESETS = {
    # name -> (objfun_has_noise, user overrides)
    'default': (False, {}),
    'noise': (True, {}),
    'hard-restarts': (False, {'restarts.use_restarts': True, 'restarts.use_soft_restarts': False}),
    'soft-restarts': (False, {'restarts.use_restarts': True, 'restarts.use_soft_restarts': True, 'restarts.soft.num_geom_steps': 1,
                              'restarts.auto_detect': False, 'noise.quit_on_noise_level': True, 'noise.additive_noise_level': 'SYM>=0'}),
    'soft-restarts-autodetect': (False, {'restarts.use_restarts': True, 'restarts.use_soft_restarts': True, 'restarts.soft.num_geom_steps': 1}),
    'soft-restarts-increase-npt': (False, {'restarts.use_restarts': True, 'restarts.use_soft_restarts': True, 'restarts.soft.num_geom_steps': 1,
                                           'restarts.auto_detect': False, 'restarts.increase_npt': True, 'restarts.increase_npt_amt': 2,
                                           'restarts.max_npt': 'NPT+1'}),
    'soft-restarts-2geom': (False, {'restarts.use_restarts': True, 'restarts.use_soft_restarts': True, 'restarts.soft.num_geom_steps': 2,
                                    'restarts.auto_detect': False}),
    'soft-restarts-moreopts': (False, {'restarts.use_restarts': True, 'restarts.use_soft_restarts': True,
                                       'restarts.soft.move_xk': False, 'restarts.increase_npt': True}),
    'regression-momentum': (False, {'regression.num_extra_steps': 1, 'regression.momentum_extra_steps': True}),
    'regression-geom': (False, {'regression.num_extra_steps': 1}),
    'growing': (False, {'growing.ndirs_initial': 1, 'growing.num_new_dirns_each_iter': 1, 'growing.do_geom_steps': True}),
    'growing-2dirs': (False, {'growing.ndirs_initial': 1, 'growing.num_new_dirns_each_iter': 2, 'growing.do_geom_steps': False}),
    'growing-perturb': (False, {'growing.ndirs_initial': 1, 'growing.full_rank.use_full_rank_interp': False,
                                'growing.perturb_trust_region_step': True}),
    'growing-safety-geom': (False, {'growing.ndirs_initial': 1, 'growing.safety.full_geom_step': True}),
    'growing-reduce-delta': (False, {'growing.ndirs_initial': 1, 'growing.safety.reduce_delta': True, 'growing.reset_delta': True}),
    'diagnostics': (False, {'logging.save_diagnostic_info': True, 'logging.save_poisedness': False}),
}


def mk_params(E, n, npt, maxfun, preset='default', small_history=True):
    noise, over = PRESETS[preset]
    P = E.get('ParameterList')(n, npt, maxfun, objfun_has_noise=noise)
    for k, v in over.items():
        if v == 'NPT+1':
            v = npt + 1
        if v == 'SYM>=0':
            v = E.real('noise_level', npy=False, lo=0)
        P(k, new_value=v)
    if P.params["noise.quit_on_noise_level"] and P.params["noise.multiplicative_noise_level"] is None and P.params["noise.additive_noise_level"] is None:
        P.params["noise.additive_noise_level"] = E.const(0)      # what solve() does during validation when no noise level is given
    if small_history:
        # bounded configuration: short histories (user-settable parameters) keep list lengths concrete and small
        P.params["restarts.soft.max_fake_successful_steps"] = 2
        P.params["restarts.auto_detect.history"] = 3
        P.params["slow.history_for_slow"] = 2
    return P


class EvalLog(object):
    """ghost log of objective evaluations made during one step"""
    def __init__(self):
        self.calls = []          # dicts: x, r (vector), idx


def mk_objfun(E, m, log, xr=False, raise_at=None):
    """objective stub: fresh residual vector per call"""
    def objfun(x, *args):
        k = len(log.calls)
        if raise_at is not None and k == raise_at:
            log.calls.append({'x': x.copy(), 'r': None, 'raised': True})
            raise UserObjfunError("user objective raised at call %d" % k)
        # finite residuals are kept below the overflow guard (|r| < 1e150); the guard itself is decided in the XR harnesses
        r = E.vec('f%d_' % k, m, xr=xr, lo=(None if xr else -10 ** 150), hi=(None if xr else 10 ** 150))
        log.calls.append({'x': x.copy(), 'r': r})
        return r
    return objfun


import numpy as _np_for_exc


class UserObjfunError(_np_for_exc.linalg.LinAlgError, OverflowError):
    """exception raised by the user's objective.  It derives from ValueError (via LinAlgError) and OverflowError on purpose:
    any handler of the library that is broad enough to swallow one of those around an evaluation will swallow it"""
    pass


def _positive(E, name):
    v = E.real(name, npy=False, lo=0)
    E.assume(v > 0)          # solve() rejects lh <= 0
    return v


def mk_controller(E, n, m, num_pts, npt_so_far, preset='default', with_h=False, xr=False, with_save=None,
                  maxfun_hi=None, objfun=None, kopt_minimal=True, scaling=False):
    """
    An arbitrary Controller state satisfying INV (see DESIGN section 3):
      1 <= nx <= nf <= maxfun; eval numbers of occupied slots in [1, nx];
      0 < rhoend <= rho <= rhobeg, rho <= delta <= 1e10;  model per mk_model.
    """
    np = E.np
    maxfun = E.int('maxfun', 1, maxfun_hi)
    params = mk_params(E, n, num_pts, maxfun, preset)
    M, ghost = mk_model(E, n, m, num_pts, npt_so_far, with_h=with_h, xr=xr, with_save=with_save, kopt_minimal=kopt_minimal, scaling=scaling)
    Controller = E.get('Controller')
    rhobeg = E.real('rhobeg', npy=False)
    rhoend = E.real('rhoend', npy=False)
    x0 = M.xbase + M.points[0, :]
    C = Controller(objfun, (), M.xbase.copy(), M.fval_v[0, :].copy(), 1, M.xbase + M.sl, M.xbase + M.su, [], num_pts,
                   rhobeg, rhoend, 0, 0, maxfun, params, None, False, h=M.h, lh=(_positive(E, 'lh') if with_h else None),
                   argsh=(), prox_uh=((lambda x, u, *a: x) if with_h else None), argsprox=())
    M.abs_tol = params("model.abs_tol")
    M.rel_tol = params("model.rel_tol")
    C.model = M
    C.nf = E.int('nf', 1, None)
    C.nx = E.int('nx', 1, None)
    E.assume(E.all([C.nx <= C.nf, C.nf <= maxfun]))
    E.assume(E.all([M.eval_num[k] <= C.nx for k in range(npt_so_far)]))
    if M.objsave is not None:
        E.assume(M.eval_num_save <= C.nx)
    C.delta = E.real('delta', npy=False)
    C.rho = E.real('rho', npy=False)
    # rhobeg <= 1e9: beyond 6.67e9 the code itself exceeds its 1e10 cap on delta (1.5*rho), see the C18 radii harness
    E.assume(E.all([0 < rhoend, rhoend <= C.rho, C.rho <= rhobeg, C.rho <= C.delta, C.delta <= E.const(10 ** 10),
                    rhobeg <= E.const(10 ** 9)]))
    C.diffs = [E.real('diff%d' % i, npy=False, lo=0) for i in range(3)]
    C.last_successful_iter = E.int('lsi', 0, None)
    C.last_successful_run = E.int('lsr', 0, None)
    C.last_run_fopt = E.real('lrf', npy=False)
    C.num_slow_iters = E.int('nslow', 0, None)
    if scaling:
        C.scaling_changes = M.scaling_changes      # the record built in mk_model: (lower, upper - lower, upper) in user units
    return C, M, ghost, params
