"""
STEP - one iteration of the main loop of solve_main from an arbitrary valid state.

The body of `while True:` in solve_main is sliced from the AST of /repo/dfols/solver.py and executed on a
symbolic pre-state satisfying INV (dfverif.state).  Everything that is bookkeeping runs for real
(evaluate_objective, calculate_ratio, check_and_fix_geometry, geometry_step, reduce_rho, soft_restart,
all Model mutators, save_point / get_final_results, DiagnosticInfo); numerics are contract stubs.
Obligations of C01, C02, C03, C04, C08, C10, C18, C19 are attached to every `continue` and every exit;
each property's check discharges only its own ('Cxx:' label prefix).
"""
import numpy as _np

from . import core, loader
from .harness import Harness, Stop
from .state import mk_controller, mk_objfun, EvalLog, objective, UserObjfunError

LinAlgError = _np.linalg.LinAlgError


def sym_bterm(c):
    from . import sym
    import z3
    return z3.BoolVal(c) if isinstance(c, bool) else sym.bterm(c)

RANDOM_OPTIONS = ['init.random_initial_directions', 'growing.perturb_trust_region_step', 'regression.momentum_extra_steps',
                  'restarts.increase_npt', 'growing.num_new_dirns_each_iter', 'growing.safety.do_safety_step(growing)']


def install_stubs(E, C, M, params, n, m, log, xr, nsample_mode, rec, xr_g=None):
    """contract stubs; `rec` collects ghost information (evaluate_objective calls, rng use, callback results)"""
    Model = E.get('Model')
    Controller = E.get('Controller')

    def interp(self, verbose=False, make_full_rank=False, min_sing_val=None, sing_val_frac=None, max_jac_cond=None,
               get_chg_J=False, throw_error_on_nans=False):
        bad = False
        if xr:
            fin = E.all([E.isfinite(v) for v in E.flat(self.fval_v[:self.npt(), :])])
            bad = not E.is_true(fin)
            if bad and throw_error_on_nans and E.is_true(E.any([E.isnan(v) for v in E.flat(self.fval_v[:self.npt(), :])])):
                raise LinAlgError("NaN encountered in objective evaluations")
        ok = (not bad) and E.is_true(E.bool('interp_ok'))
        if not ok:
            return False, None, None, None, None
        self.model_jac = E.mat('Jn', m, n)
        self.model_const = E.vec('cn', m)
        self.model_jac_eval_nums = self.eval_num.copy()
        self.factorisation_current = True
        self._lg_ok = True
        return True, E.real('interp_err', npy=False, lo=0), E.real('normJ', npy=False, lo=0), E.real('linres', npy=False, lo=0), \
            E.real('cond', npy=False, lo=1)
    E.patch_attr(Model, 'interpolate_mini_models_svd', interp)

    def lagrange_gradient(self, k=None, factorise_first=True):
        # deterministic in the factorisation state: it cannot fail on an unchanged, successfully used factorisation
        if not (self.factorisation_current and getattr(self, '_lg_ok', False)):
            if not E.is_true(E.bool('lg_ok')):
                self._lg_ok = False
                raise LinAlgError("singular matrix")
            self.factorisation_current = True
            self._lg_ok = True
        npt = self.npt()
        if k is not None:
            return E.real('lc'), E.vec('lg', n)
        return E.vec('lcs', npt), E.mat('lgs', n, npt)
    E.patch_attr(Model, 'lagrange_gradient', lagrange_gradient)
    E.patch_attr(Model, 'poisedness_constant', lambda self, delta, xbase=None, xbase_in_abs_coords=True: E.real('poised', lo=0))

    def trust_region_step(self, params, criticality_measure=None):
        xopt = self.model.xopt()
        d = E.vec('d', n)
        xn = xopt + d
        # contract of the subproblem solvers (C12/C13): the step stays inside the box
        E.assume(E.all([self.model.sl[i] <= xn[i] for i in range(n)] + [xn[i] <= self.model.su[i] for i in range(n)]))
        # (with bad objective values the model gradient J^T r can overflow although the fit succeeded: gopt is NaN / +-inf / a number)
        return d, E.vec('g', n, xr=(xr if xr_g is None else xr_g)), E.mat('H', n, n), E.vec('gn', n), E.real('crvmin')
    E.patch_attr(Controller, 'trust_region_step', trust_region_step)
    E.patch_attr(Controller, 'evaluate_criticality_measure', lambda self, params: E.real('crit', lo=0))

    def trsbox_geometry(xbase, c, g, lower, upper, Delta, use_fortran=False):
        p = E.vec('geo', n)
        E.assume(E.all([lower[i] <= p[i] for i in range(n)] + [p[i] <= upper[i] for i in range(n)]))
        return p
    E.patch('trsbox_geometry', trsbox_geometry)

    def rnd_dirs(num_pts, delta, lower, upper, with_neg_dirns=True):
        rec['rng'].append('directions')
        num_pts = int(num_pts)
        D = E.mat('rd', num_pts, n)
        E.assume(E.all([lower[i] <= D[k, i] for k in range(num_pts) for i in range(n)] +
                       [D[k, i] <= upper[i] for k in range(num_pts) for i in range(n)]))
        return D
    E.patch('random_directions_within_bounds', rnd_dirs)
    E.patch('random_orthog_directions_within_bounds', rnd_dirs)

    def la(name, args, kwargs):
        if name == 'qr':
            a = args[0]
            r_, c_ = a.shape
            k = min(r_, c_)
            return E.mat('Q', r_, k), E.mat('R', k, c_)
        if name == 'linregress':
            return (E.real('slope'), E.real('icpt'), E.real('rval', lo=-1, hi=1), E.real('pval'), E.real('stderr'))
        return NotImplemented

    def rng(kind, size, **kw):
        rec['rng'].append(kind)
        raise core.PathAbort('unsupported', 'direct RNG use inside the main loop')
    E.hooks(rng=rng, la=la)

    if E.symbolic:
        # assume-guarantee: reduce_rho runs for real; what the UF abstraction cannot see about its sqrt/quotient is supplied from the
        # exact QF_NRA lemma reduce_rho[*] (C18): rhoend <= rho' < rho
        orig_reduce = Controller.reduce_rho

        def reduce_rho(self, current_iter, params):
            rho0 = self.rho
            orig_reduce(self, current_iter, params)
            E.p.axiom(sym_bterm(E.all([self.rhoend <= self.rho, E.implies(rho0 > self.rhoend, self.rho < rho0), self.rho <= rho0])))
        E.patch_attr(Controller, 'reduce_rho', reduce_rho)
    orig_eval = Controller.evaluate_objective
    # provenance (C01): points handed out by the model's absolute-coordinate accessors carry a tag that survives copies and views but not
    # arithmetic; the binary64 kernel (C01) proves those outputs exactly inside the box, so every evaluated point must carry the tag
    Model_ = type(M)
    if E.symbolic:
        def _tagged(a):
            a.tag = 'abs-accessor'
            return a
        _has_tag = lambda a: getattr(a, 'tag', None) == 'abs-accessor'
    else:
        import numpy as _rnp

        class _Tagged(_rnp.ndarray):
            def __array_ufunc__(self, ufunc, method, *inputs, **kwargs):
                inputs = tuple(_rnp.asarray(i) if isinstance(i, _Tagged) else i for i in inputs)
                if kwargs.get('out') is not None:
                    kwargs['out'] = tuple(_rnp.asarray(o) if isinstance(o, _Tagged) else o for o in kwargs['out'])
                return getattr(ufunc, method)(*inputs, **kwargs)
        _tagged = lambda a: _rnp.asarray(a).view(_Tagged)
        _has_tag = lambda a: isinstance(a, _Tagged)
    for nm_ in ('as_absolute_coordinates', 'xpt', 'xopt'):
        def _mk(orig_, nm_=nm_):
            def acc(self, *a, **k):
                out_ = orig_(self, *a, **k)
                is_abs = (nm_ == 'as_absolute_coordinates') or bool(k.get('abs_coordinates', a[-1] if (a and isinstance(a[-1], bool)) else False))
                return _tagged(out_) if is_abs else out_
            return acc
        E.patch_attr(Model_, nm_, _mk(getattr(Model_, nm_)))

    def evaluate_objective(self, x, number_of_samples, params):
        before = len(log.calls)
        nf0, nx0 = self.nf, self.nx
        rec.setdefault('prov', []).append(bool(_has_tag(x)))
        out = orig_eval(self, x, number_of_samples, params)
        rec['evals'].append({'x': x.copy(), 'requested': number_of_samples, 'first': before, 'count': len(log.calls) - before,
                             'nf0': nf0, 'nx0': nx0, 'nf1': self.nf, 'nx1': self.nx, 'last_cb': rec['cb'][-1] if rec['cb'] else None})
        return out
    E.patch_attr(Controller, 'evaluate_objective', evaluate_objective)

    def nsamples(delta, rho, it, nruns):
        if nsample_mode == 'one':
            v = 1
        else:
            v = E.int('ns', -1, nsample_mode)
        rec['cb'].append(v)
        return v
    return nsamples


from .state import final_obj_spec as spec_final_obj   # noqa: E402


def new_records(E, M, log, rec, m):
    """records (x, mean, count, point number, objective) of the points evaluated during this step"""
    out = []
    for ev in rec['evals']:
        if ev['count'] == 0:
            continue
        cs = log.calls[ev['first']:ev['first'] + ev['count']]
        if any(c.get('raised') for c in cs):
            continue
        mean = [sum(c['r'][j] for c in cs) / len(cs) for j in range(m)]
        x = cs[0]['x']
        out.append({'x': x, 'mean': mean, 'cnt': len(cs), 'ev': ev['nx1'], 'obj': objective(E, M, E.arr(mean) if not E.symbolic else _vec(E, mean), x),
                    'first_obj': None})
    return out


def _vec(E, vals):
    from .arr import SArr
    return SArr.from_flat(list(vals), (len(vals),), 'f')


def rec_equal(E, x, r, cnt, ev, R, n, m):
    return E.all([E.eq(x[i], R['x'][i]) for i in range(n)] + [E.same(r[j], R['mean'][j]) for j in range(m)] +
                 [cnt == R['cnt'], ev == R['ev']])


def body(E, n, m, num_pts, npt_so_far, preset, with_h=False, xr=False, nsample_mode='one', fault=None, proj=False, proj_full=False):
    np = E.np
    log = EvalLog()
    objfun = mk_objfun(E, m, log, xr=xr, raise_at=(0 if fault == 'raise' else (1 if fault == 'raise1' else None)))
    C, M, ghost, params = mk_controller(E, n, m, num_pts, npt_so_far, preset=preset, with_h=with_h, xr=xr, objfun=objfun,
                                         kopt_minimal=False)
    if preset.startswith('growing'):
        # a freshly drawn random direction is never exactly in the span of the existing directions (probability-zero event; with the
        # arbitrary Q of the stubbed QR it would make the orthogonalised direction 0 and the new point 0/0)
        E.assume_norms_positive(True)
    rec = {'evals': [], 'rng': [], 'cb': [], 'dyk': []}
    nsamples = install_stubs(E, C, M, params, n, m, log, xr, nsample_mode, rec, xr_g=(xr or fault == 'badg'))   # fault 'badg': only the model gradient is bad
    if proj:
        # general convex constraints: the model maps every point to user space through the alternating projection
        userP = lambda w: w
        boxP = lambda w: w
        M.projections = [userP, boxP]
        rec['boxP'] = boxP

        def dykstra(P, x0, max_iter=100, tol=1e-10):
            z = E.vec('dyk%d_' % len(rec['dyk']), n)
            rec['dyk'].append({'out': z, 'P': list(P), 'arg': x0.copy()})
            return z
        E.patch('dykstra', dykstra)
        E.patch('ctrsbox_geometry', lambda xbase, c, g, projections, Delta, d_max_iters=100, d_tol=1e-10, use_fortran=False: E.vec('cgeo', n))
    # ---- INV: stored objectives are above the small-objective threshold (the run would have stopped otherwise)
    thr = M.min_objective_value()
    E.assume(E.all([E.no(M.objval[k] <= thr) for k in range(npt_so_far)]))
    # ---- locals of solve_main
    nruns = E.int('nruns', 0, None)
    E.assume(C.last_successful_run <= nruns)
    fg = (npt_so_far >= num_pts) and E.is_true(E.bool('finished_growing'))
    hist = params("restarts.auto_detect.history")
    uses_rad = bool(params("restarts.use_restarts") and params("restarts.auto_detect"))
    rad_delta = np.zeros((hist,)) - 1
    rad_chgJ = np.zeros((hist,)) - 1
    rad_full = False
    if uses_rad:
        # history vectors: a filled prefix of positive radii followed by -1 entries; full <=> nothing is -1
        rad_full = E.bool('rad_full')
        prev_filled = True
        for i in range(hist):
            v = E.real('radd%d' % i)
            j = E.real('radj%d' % i)
            filled_i = v > 0
            E.assume(E.any([filled_i, v == -1]))
            E.assume(E.implies(filled_i, prev_filled))
            E.assume(E.any([E.all([filled_i, j >= 0]), E.all([E.no(filled_i), j == -1])]))
            prev_filled = filled_i
            rad_delta[i] = v
            rad_chgJ[i] = j
        E.assume(E.implies(rad_full, prev_filled))
        E.assume(E.implies(prev_filled, rad_full))
    nfake = params("restarts.soft.max_fake_successful_steps")
    DI = E.get('DiagnosticInfo')()
    env = {
        'control': C, 'params': params, 'nsamples': nsamples, 'objfun': objfun, 'h': M.h, 'lh': C.lh,
        'rhobeg': C.rhobeg, 'rhoend': C.rhoend, 'nruns_so_far': nruns, 'current_iter': E.int('iter', -1, None),
        'finished_growing': fg, 'do_logging': False, 'print_progress': False, 'diagnostic_info': DI,
        'succ_steps_not_improvement': [E.bool('fake%d' % i) for i in range(nfake)],
        'restart_auto_detect_full': rad_full, 'restart_auto_detect_delta': rad_delta, 'restart_auto_detect_chgJ': rad_chgJ,
        'exit_info': None,
    }
    # the other parameters / pre-loop locals of solve_main.  nf, nx, nf_so_far, nx_so_far are the STALE counters of the run start
    # (the live ones are control.nf / control.nx): arbitrary values not above the live counters
    stale = {}
    for nm, live in (('nf', C.nf), ('nx', C.nx), ('nf_so_far', C.nf), ('nx_so_far', C.nx)):
        stale[nm] = E.int(nm + '_stale', 0, None)
        E.assume(stale[nm] <= live)
    E.assume(E.all([stale['nf_so_far'] <= stale['nf'], stale['nx_so_far'] <= stale['nx'], 1 <= stale['nx'], 1 <= stale['nf']]))
    env.update(stale)
    env.update({'maxfun': C.maxfun, 'npt': M.num_pts, 'xl': getattr(M, 'xl', None), 'xu': getattr(M, 'xu', None), 'projections': M.projections,
                'argsf': (), 'argsh': M.argsh, 'scaling_changes': C.scaling_changes, 'prox_uh': C.prox_uh, 'argsprox': C.argsprox,
                'x0': E.vec('x0_runstart', n), 'default_growing_method_set_by_user': True, 'r0_avg_old': None, 'r0_nsamples_old': None,
                'x0_eval_num_old': None})
    pre = {'nf': C.nf, 'nx': C.nx, 'rho': C.rho, 'delta': C.delta, 'nruns': nruns, 'rhoend': C.rhoend, 'rhobeg': C.rhobeg,
           'final': spec_final_obj(E, M), 'rows': 0, 'maxfun': C.maxfun}
    old_records = [dict(g) for g in ghost]
    for k, g in enumerate(old_records):
        g['x'] = M.xpt(k, abs_coordinates=True)
    if M.objsave is not None:
        old_records.append({'x': M.xsave.copy(), 'mean': [M.rsave[j] for j in range(m)], 'cnt': M.nsamples_save, 'ev': M.eval_num_save})
    step = E.make_step('solver', 'solve_main', lambda fn: loader.find_main_loop(fn).body, '__step', True)
    epilogue = E.make_step('solver', 'solve_main',
                           lambda fn: fn.body[fn.body.index(loader.find_main_loop(fn)) + 1:], '__epilogue', False)
    outcome, exc = None, None
    try:
        step(env)
        outcome = 'fallthrough'
    except loader._Continue:
        outcome = 'continue'
    except loader._Break:
        outcome = 'break'
    except (Stop, core.PathAbort):
        raise
    except Exception as e:        # noqa
        outcome, exc = 'raise', e
        if isinstance(e, NameError) and getattr(e, 'name', None) and e.name not in env and \
                e.name in loader.function_locals(loader.find_def('solver', 'solve_main')):
            # the sliced iteration reads a local of solve_main that this harness does not provide: no verdict (harness error), not a pass
            raise RuntimeError("main-loop slice reads solve_main's local %r, which the STEP environment does not model" % e.name)
    E.reach('outcome:' + outcome)
    if proj:
        # C09: every evaluated point is an output of the alternating projection over the model's projector list (box last)
        for c in log.calls:
            hits = [E.all([E.eq(c['x'][i], dk['out'][i]) for i in range(n)]) for dk in rec['dyk']]
            E.prove(E.any(hits) if hits else False, 'C09:step:evaluated-point-is-an-alternating-projection-output')
        for dk in rec['dyk']:
            E.prove(len(dk['P']) == 2 and dk['P'][-1] is rec['boxP'], 'C09:step:projection-uses-the-model-list-with-the-box-last')
        E.reach('C09:step:checked')
        if not proj_full:
            return
    check_step(E, outcome, exc, env, pre, C, M, params, log, rec, old_records, n, m, preset, xr, nsample_mode, fault, epilogue)


def check_step(E, outcome, exc, env, pre, C, M, params, log, rec, old_records, n, m, preset, xr, nsample_mode, fault, epilogue):
    np = E.np
    # ---------------- exceptions
    if outcome == 'raise':
        if isinstance(exc, UserObjfunError):
            E.prove(fault in ('raise', 'raise1'), 'C08:only-user-exceptions-propagate')
            E.prove(len(log.calls) == (1 if fault == 'raise' else 2), 'C08:no-evaluation-after-user-exception')
            return
        if isinstance(exc, LinAlgError) and params("interpolation.throw_error_on_nans"):
            E.reach('C08:opted-in-raise')
            return
        E.fail('C08:main-loop-raises-' + type(exc).__name__, detail=str(exc)[:200])
        E.fail('C07:main-loop-raises-' + type(exc).__name__, detail=str(exc)[:200])
        return
    if fault in ('raise', 'raise1') and any(c.get('raised') for c in log.calls):
        E.fail('C08:user-exception-was-swallowed[%s]' % _site(outcome, env), detail='the objective raised but the iteration went on (%s)' % outcome)
        return
    # ---------------- C02: counters
    calls = len(log.calls)
    E.prove(C.nf - pre['nf'] == calls, 'C02:step:nf-counts-calls')
    npoints = sum(1 for ev in rec['evals'] if ev['count'] > 0)
    E.prove(C.nx - pre['nx'] == npoints, 'C02:step:nx-counts-points')
    E.prove(C.nf <= pre['maxfun'], 'C02:step:budget-respected')
    for ev in rec['evals']:
        cb = ev['last_cb']
        E.prove(cb is not None and ev['requested'] == E.ite(cb >= 1, cb, 1) if cb is not None else False,
                'C02:step:sample-count-is-what-the-callback-asked-for')
        cs = log.calls[ev['first']:ev['first'] + ev['count']]
        for c in cs:
            E.prove(E.all([E.eq(c['x'][i], ev['x'][i]) for i in range(n)]), 'C02:step:samples-of-a-point-get-identical-x')
    # ---------------- C01: box at every evaluation (real arithmetic; exactness is the FP kernel)
    xl, xu = M.xbase + M.sl, M.xbase + M.su
    for c in log.calls:
        E.prove(E.all([xl[i] <= c['x'][i] for i in range(n)] + [c['x'][i] <= xu[i] for i in range(n)]), 'C01:step:evaluated-point-in-box')
    for ok_ in rec.get('prov', []):
        E.prove(bool(ok_), 'C01:step:evaluated-point-is-an-output-of-the-model-absolute-coordinate-accessors')
    # ---------------- C19: randomness only when an option asks for it
    if rec['rng']:
        allowed = (params("growing.perturb_trust_region_step") or params("regression.momentum_extra_steps") or
                   params("restarts.increase_npt") or params("growing.num_new_dirns_each_iter") > 0 or
                   (not env['finished_growing'] and params("growing.safety.do_safety_step")) or
                   params("init.random_initial_directions"))
        E.prove(bool(allowed), 'C19:step:random-directions-only-when-an-option-requests-them')
    # ---------------- C18: diagnostic table (rows are plain python lists)
    if params("logging.save_diagnostic_info"):
        DI = env['diagnostic_info']
        lens = sorted(set(len(v) for v in DI.data.values()))
        E.prove(len(lens) == 1 and lens[0] in (0, 1), 'C18:diag:at-most-one-row-per-iteration-all-columns-together')
        if lens[-1] == 1:
            E.prove(E.all([DI.data['nf'][0] >= pre['nf'], DI.data['nf'][0] <= C.nf, DI.data['nx'][0] >= pre['nx'], DI.data['nx'][0] <= C.nx]),
                    'C18:diag:row-counters-between-pre-and-post-counters')
            E.prove(E.all([DI.data['rho'][0] > 0, DI.data['rho'][0] <= DI.data['delta'][0], DI.data['delta'][0] <= E.const(10 ** 10)]),
                    'C18:diag:row-radii-satisfy-invariant')
            E.prove(E.all([DI.data['npt'][0] >= 2, DI.data['npt'][0] <= M.num_pts]), 'C18:diag:row-npt-in-range')
            E.prove(DI.data['iters_total'][0] == 0 and DI.data['nruns'][0] == pre['nruns'], 'C18:diag:row-iteration-and-run-numbers')
            E.prove(E.le(DI.data['fk'][0], pre['final']), 'C18:diag:recorded-best-objective-is-the-best-so-far')
    news = new_records(E, M, log, rec, m)
    allowed = old_records + news
    # ---------------- C03 / C17: record integrity of the post-state
    for k in range(M.npt()):
        xk = M.xpt(k, abs_coordinates=True)
        E.prove(E.any([rec_equal(E, xk, M.fval_v[k, :], M.nsamples[k], M.eval_num[k], R, n, m) for R in allowed]),
                'C03:step:every-slot-holds-one-whole-evaluated-record')
        E.prove(E.same(M.objval[k], objective(E, M, M.fval_v[k, :], M.xbase + M.points[k, :])), 'C03:step:slot-objective-is-F')
        # (C11: the numbers that a later fit snapshots into jacmin_eval_nums are the slots' numbers)
        E.prove(E.any([rec_equal(E, xk, M.fval_v[k, :], M.nsamples[k], M.eval_num[k], R, n, m) for R in allowed]),
                'C11:step:every-slot-carries-the-evaluation-number-of-its-point')
    if M.objsave is not None:
        E.prove(E.any([rec_equal(E, M.xsave, M.rsave, M.nsamples_save, M.eval_num_save, R, n, m) for R in allowed]),
                'C03:step:saved-slot-holds-one-whole-evaluated-record')
        # (C11: a saved point becomes the first interpolation point of the next run after a hard restart, with this number)
        E.prove(E.any([rec_equal(E, M.xsave, M.rsave, M.nsamples_save, M.eval_num_save, R, n, m) for R in allowed]),
                'C11:step:saved-point-carries-its-own-evaluation-number')
    post_obj = spec_final_obj(E, M)
    deterministic = (nsample_mode == 'one')
    # ---------------- C04: best point never lost (at continue and at exit alike)
    if deterministic and not xr:
        E.prove(E.le(post_obj, pre['final']), 'C04:step:%s:best-value-never-increases' % outcome)
        for R in news:
            E.prove(E.le(post_obj, R['obj']), 'C04:step:%s:not-worse-than-a-point-evaluated-in-this-iteration' % _site(outcome, env))
    if xr:
        # C08: a bad value never displaces a finite best point
        had = E.isfinite(pre['final'])
        E.prove(E.implies(had, E.isfinite(post_obj)), 'C08:step:finite-best-survives-bad-values')
        if deterministic:
            E.prove(E.implies(had, E.le(post_obj, pre['final'])), 'C08:step:best-finite-value-never-increases')
            for R in news:
                E.prove(E.implies(E.isfinite(R['obj']), E.all([E.isfinite(post_obj), E.le(post_obj, R['obj'])])),
                        'C08:step:%s:finite-new-value-is-not-lost' % _site(outcome, env))
    # ---------------- continue: INV re-established
    nruns1 = env['nruns_so_far']
    restarted = False
    if outcome == 'continue':
        restarted = E.is_true(nruns1 != pre['nruns'])
        E.prove(E.any([nruns1 == pre['nruns'], nruns1 == pre['nruns'] + 1]), 'C10:step:nruns-changes-by-at-most-one')
        rhoend1 = env['rhoend']
        E.prove(E.all([0 < C.rho, rhoend1 <= C.rho, C.rho <= pre['rhobeg']]), 'C18:step:rhoend<=rho<=rhobeg')
        E.prove(E.all([C.rho <= C.delta, C.delta <= E.const(10 ** 10)]), 'C18:step:rho<=delta<=1e10')
        reset_ok = restarted or (params("growing.reset_rho") and not pre.get('fg0', True))
        if not reset_ok:
            E.prove(C.rho <= pre['rho'], 'C18:step:rho-never-increases-within-a-run')
        E.prove(E.all([M.eval_num[k] <= C.nx for k in range(M.npt())]), 'C03:step:eval-numbers-bounded-by-nx')
        E.prove(2 <= M.npt() and M.npt() <= params("restarts.max_npt") and M.num_pts <= params("restarts.max_npt"),
                'C18:step:number-of-points-between-2-and-the-allowed-maximum')
        thr = M.min_objective_value()
        if not xr:
            E.prove(E.all([E.no(M.objval[k] < post_obj) for k in range(M.npt())]), 'C04:step:best-value-is-a-lower-bound-of-all-stored-values')
        else:
            anyok = E.any([E.no(E.isnan(M.objval[k])) for k in range(M.npt())])
            E.prove(E.all([E.no(M.objval[k] < post_obj) for k in range(M.npt())] + [E.implies(anyok, E.no(E.isnan(post_obj)))]),
                    'C08:step:best-value-is-a-lower-bound-of-all-stored-values')
        return
    # ---------------- exit
    exit_info = env['exit_info']
    E.prove(exit_info is not None, 'C10:exit-has-exit-info')
    if exit_info is None:
        return
    E.prove(nruns1 == pre['nruns'] + 1, 'C10:step:%s:nruns-incremented-exactly-once-on-exit' % _site(outcome, env))
    try:
        epilogue(env)
        ret = None
    except loader._Return as r:
        ret = r.value
    E.prove(ret is not None and len(ret) == 12, 'C03:exit-returns-12-tuple')
    x, rvec, obj, jac, cnt, nf_r, nx_r, nruns_r, ei, di, xnum, jnums = ret
    site = _site(outcome, env)
    E.prove(E.all([nf_r == C.nf, nx_r == C.nx, nruns_r == nruns1]), 'C02:exit:returned-counters-are-the-live-counters')
    # C03: the returned solution is one whole evaluated record, with the right number
    E.prove(E.any([rec_equal(E, x, rvec, cnt, xnum, R, n, m) for R in allowed]), 'C03:exit:%s:returned-solution-is-one-whole-evaluated-record' % site)
    E.prove(E.same(obj, objective(E, M, rvec, x)), 'C03:exit:obj-is-sumsq-plus-h-of-returned-point')
    E.prove(E.all([xnum >= 1, xnum <= C.nx]), 'C03:exit:xmin_eval_num-in-range')
    # C11: Jacobian and its evaluation numbers travel together
    if jac is not None and jnums is not None:
        from_model = (jnums is M.model_jac_eval_nums) or _same_ints(E, jnums, M.model_jac_eval_nums)
        from_saved = M.jacsave_eval_nums is not None and _same_ints(E, jnums, M.jacsave_eval_nums)
        E.prove(E.any([from_model, from_saved]), 'C11:exit:jacobian-eval-numbers-are-a-fit-snapshot')
        # ... and they are the numbers of the fit that produced THIS Jacobian: both from the live model or both from the saved record
        samej = lambda A_, B_: B_ is not None and A_.shape == B_.shape and E.all([E.same(p_, q_) for p_, q_ in zip(E.flat(A_), E.flat(B_))])
        pair_model = E.all([samej(jac, M.model_jac), from_model])
        pair_saved = E.all([samej(jac, M.jacsave), from_saved])
        E.prove(E.any([pair_model, pair_saved]), 'C11:exit:jacobian-and-its-eval-numbers-come-from-the-same-fit')
    # C10: messages tell the truth
    msg = exit_info.msg
    flag = exit_info.flag
    if 'sufficiently small' in msg:
        E.prove(E.le(obj, M.min_objective_value(), tol=0), 'C10:exit:small-objective-message-is-true')
    if 'rho has reached rhoend' in msg:
        E.prove(E.eq(C.rho, env['rhoend']), 'C10:exit:%s:rho-equals-rhoend' % site)
    if flag == E.get('EXIT_MAXFUN_WARNING'):
        E.prove(C.nf == pre['maxfun'], 'C10:exit:%s:maxfun-message-means-nf==maxfun' % site)
    if 'unsuccessful restarts' in msg:
        E.prove(pre['nruns'] - C.last_successful_run >= params("restarts.max_unsuccessful_restarts"),
                'C10:exit:max-unsuccessful-restarts-message-is-true')
    if flag == E.get('EXIT_SUCCESS') and xr:
        E.prove(E.isfinite(obj), 'C10:exit:%s:success-never-with-non-finite-objective' % site)
    E.reach('exit:' + site)


def _same_ints(E, a, b):
    if a is None or b is None:
        return False
    fa, fb = E.flat(a), E.flat(b)
    return len(fa) == len(fb) and E.all([p == q for p, q in zip(fa, fb)])


def _site(outcome, env):
    ei = env.get('exit_info')
    if outcome != 'break' or ei is None:
        return outcome
    msg = str(getattr(ei, 'msg', ''))
    return "exit[%s]" % msg[:48]


def body_action(E, action, n, m, nsample_hi, preset='soft-restarts', num_pts=None, npt_so_far=None, vary_npt=False):
    """one Controller action (real code) from an arbitrary valid state: geometry_step / soft_restart / add_new_direction_while_growing"""
    np = E.np
    log = EvalLog()
    objfun = mk_objfun(E, m, log)
    num_pts = num_pts or n + 1
    npt_so_far = npt_so_far or num_pts
    C, M, ghost, params = mk_controller(E, n, m, num_pts, npt_so_far, preset=preset, objfun=objfun, kopt_minimal=False)
    if preset.startswith('growing'):
        E.assume_norms_positive(True)
    rec = {'evals': [], 'rng': [], 'cb': [], 'dyk': []}
    install_stubs(E, C, M, params, n, m, log, False, 'one', rec)
    thr = M.min_objective_value()
    E.assume(E.all([E.no(M.objval[k] <= thr) for k in range(npt_so_far)]))
    pre_final = spec_final_obj(E, M)
    old_records = [dict(g) for g in ghost]
    for k, g in enumerate(old_records):
        g['x'] = M.xpt(k, abs_coordinates=True)
    if M.objsave is not None:
        old_records.append({'x': M.xsave.copy(), 'mean': [M.rsave[j] for j in range(m)], 'cnt': M.nsamples_save, 'ev': M.eval_num_save})
    nf0, nx0 = C.nf, C.nx
    want = int(E.int('want', 1, nsample_hi))
    rec['cb'].append(want)
    exc = None
    steps = []
    if action == 'soft_restart':
        mv = bool(E.is_true(E.bool('move_xk')))
        ngs = int(E.int('num_geom_steps', 0, 1 if vary_npt else 4))
        params.params["restarts.soft.move_xk"] = mv
        params.params["restarts.soft.num_geom_steps"] = ngs
        if vary_npt:
            # growing the point set at a restart: switch, increment and room are all arbitrary
            inc = bool(E.is_true(E.bool('increase_npt')))
            amt = int(E.int('increase_npt_amt', 1, 2))
            room = int(E.int('room', 0, 2))
            params.params["restarts.increase_npt"] = inc
            params.params["restarts.increase_npt_amt"] = amt
            params.params["restarts.max_npt"] = num_pts + room
        orig_gs = E.get('Controller').geometry_step

        def gs(self, knew, adelt, number_of_samples, params_):
            steps.append(int(knew))
            return orig_gs(self, knew, adelt, number_of_samples, params_)
        E.patch_attr(E.get('Controller'), 'geometry_step', gs)
        nruns = E.int('nruns', 0, None)
        E.assume(C.last_successful_run <= nruns)
        kopt0 = int(M.kopt)
        distinct = E.all([E.any([E.no(M.points[k, i] == M.points[kopt0, i]) for i in range(n)]) for k in range(npt_so_far) if k != kopt0])
    try:
        if action == 'geometry_step':
            knew = int(E.int('knew', 0, npt_so_far - 1))
            exit_info = C.geometry_step(knew, C.delta, want, params)
        elif action == 'add_new_direction':
            exit_info = C.add_new_direction_while_growing(want, params, min_num_steps=int(E.int('min_num_steps', 0, 1)))
        elif action == 'momentum_step':
            exit_info = C.move_furthest_points_momentum(E.vec('dstep', n), want, int(E.int('num_pts_to_move', 1, npt_so_far)), params)
        elif action == 'extra_geom_steps':
            exit_info = C.move_furthest_points(want, int(E.int('num_pts_to_move', 1, npt_so_far)), params)
        else:
            exit_info = C.soft_restart(want, nruns, params)
    except (Stop, core.PathAbort):
        raise
    except Exception as e:     # noqa
        E.fail('C07:%s:raises-%s' % (action, type(e).__name__), detail=str(e)[:160])
        E.fail('C08:%s:raises-%s' % (action, type(e).__name__), detail=str(e)[:160])
        return
    calls = len(log.calls)
    E.prove(E.all([C.nf - nf0 == calls, C.nf <= C.maxfun]), 'C02:%s:counters-and-budget' % action)
    for ev in rec['evals']:
        E.prove(ev['requested'] == want, 'C02:%s:sample-count-is-what-was-asked-for' % action)
    xl_, xu_ = M.xbase + M.sl, M.xbase + M.su
    for c in log.calls:
        E.prove(E.all([xl_[i] <= c['x'][i] for i in range(n)] + [c['x'][i] <= xu_[i] for i in range(n)]), 'C01:%s:evaluated-point-in-box' % action)
    for ok_ in rec.get('prov', []):
        E.prove(bool(ok_), 'C01:%s:evaluated-point-is-an-output-of-the-model-absolute-coordinate-accessors' % action)
    news = new_records(E, M, log, rec, m)
    allowed = old_records + news
    for k in range(M.npt()):
        xk = M.xpt(k, abs_coordinates=True)
        ok_slot = E.any([rec_equal(E, xk, M.fval_v[k, :], M.nsamples[k], M.eval_num[k], R, n, m) for R in allowed])
        E.prove(ok_slot, 'C03:%s:every-slot-holds-one-whole-evaluated-record' % action)
        E.prove(ok_slot, 'C17:%s:slot-point-mean-residual-count-and-number-belong-together' % action)
    if M.objsave is not None:
        ok_save = E.any([rec_equal(E, M.xsave, M.rsave, M.nsamples_save, M.eval_num_save, R, n, m) for R in allowed])
        E.prove(ok_save, 'C03:%s:saved-slot-holds-one-whole-evaluated-record[%s]' % (action, 'exit' if exit_info is not None else 'ok'))
        E.prove(ok_save, 'C17:%s:saved-point-mean-residual-count-and-number-belong-together' % action)
        E.prove(E.same(M.objsave, objective(E, M, M.rsave, M.xsave)), 'C03:%s:saved-objective-is-F-of-saved-record' % action)
    post = spec_final_obj(E, M)
    if nsample_hi == 1:
        E.prove(E.le(post, pre_final), 'C04:%s:best-value-never-increases' % action)
        for R in news:
            E.prove(E.le(post, R['obj']), 'C04:%s:not-worse-than-a-point-evaluated-here' % action)
    if action == 'soft_restart' and vary_npt:
        E.prove(inc or 'directions' not in rec['rng'], 'C19:soft_restart:random-directions-only-when-restarts.increase_npt-is-on')
        if exit_info is None:
            E.prove(M.npt() - npt_so_far == (min(amt, room) if inc else 0), 'C18:soft_restart:adds-min(increase_npt_amt,room)-points-iff-switched-on')
        E.prove(M.npt() <= num_pts + room, 'C18:soft_restart:never-more-points-than-restarts.max_npt')
    if action == 'soft_restart' and exit_info is None:
        avail = npt_so_far if mv else npt_so_far - 1
        E.prove(len(steps) == min(ngs, avail), 'C07:soft_restart:performs-min(num_geom_steps,available-points)-geometry-steps')
        if not mv:
            E.prove(E.implies(distinct, all(k_ != kopt0 for k_ in steps[:1])), 'C07:soft_restart:incumbent-not-moved-first-when-move_xk-is-off')


FUNCS = ['solver.solve_main', 'controller.Controller.evaluate_objective', 'controller.Controller.calculate_ratio',
         'controller.Controller.check_and_fix_geometry', 'controller.Controller.geometry_step', 'controller.Controller.reduce_rho',
         'controller.Controller.done_with_current_rho', 'controller.Controller.terminate_from_slow_iterations',
         'controller.Controller.soft_restart', 'controller.Controller.choose_point_to_replace',
         'controller.Controller.add_new_direction_while_growing', 'controller.Controller.get_new_direction_for_growing',
         'controller.Controller.move_furthest_points', 'controller.Controller.move_furthest_points_momentum',
         'controller.Controller.all_values_within_noise_level', 'model.Model.change_point', 'model.Model.add_new_sample',
         'model.Model.add_new_point', 'model.Model.shift_base', 'model.Model.save_point', 'model.Model.get_final_results',
         'model.Model.xpt', 'model.Model.as_absolute_coordinates', 'model.Model.distances_to_xopt', 'model.Model.min_objective_value',
         'util.eval_least_squares_with_regularisation', 'util.model_value', 'diagnostic_info.DiagnosticInfo']

STUBS = ["objfun: fresh residual vector per call", "nsamples callback: constant 1 ('one') or a fresh int in [-1,k] per call",
         "Model.interpolate_mini_models_svd: fresh ok flag, havocs model_jac/model_const, snapshots eval numbers (fails on non-finite data)",
         "Controller.trust_region_step / evaluate_criticality_measure: fresh d, gopt, H, gnew, crvmin with sl <= xopt+d <= su (C12/C13 contract)",
         "Model.lagrange_gradient: fresh values or LinAlgError, deterministic in the factorisation state",
         "trsbox_geometry: fresh point inside [lower, upper] (C13 contract)",
         "random_directions_within_bounds / random_orthog_directions_within_bounds: fresh directions inside [lower, upper] (C14 contract)",
         "scipy.linalg.qr, scipy.stats.linregress: fresh values; in the growing presets vector norms taken by the code are assumed non-zero", "math.log: uninterpreted strictly monotone function", "Controller.reduce_rho: executed for real; its proved contract rhoend <= rho' < rho (exact QF_NRA lemma reduce_rho[*]) is added as an axiom because the UF abstraction hides the sqrt/quotient",
         "products / quotients / squares / square roots of two symbolic values: uninterpreted functions with sign, zero and unit axioms (over-approximation); counterexamples are re-checked under exact nonlinear semantics and replayed concretely"]

INV = ["1 <= nx <= nf <= maxfun; eval numbers of occupied and saved slots in [1, nx]; sample counts >= 1",
       "objval[k] = sumsq(fval_v[k]) + h(point k); min(incumbent, saved point) is a lower bound of every stored objective; stored objectives above the small-objective threshold",
       "0 < rhoend <= rho <= rhobeg, rho <= delta <= 1e10; restarts.rhoend_scale = 1 (default)",
       "finished_growing => point set complete; last_successful_run <= nruns_so_far",
       "bounded configuration: restarts.soft.max_fake_successful_steps = 2, restarts.auto_detect.history = 3, slow.history_for_slow = 2"]


def step_harnesses(tier, seed, pid):
    hs = []
    D = (1, 1, 2, 2)
    if tier == 'quick':
        combos = [D + ('default', False, False, 'one', None)]
        if pid in ('C03', 'C04', 'C10'):
            combos.append(D + ('soft-restarts', False, False, 'one', None))
        if pid == 'C04':
            combos.append(D + ('regression-geom', False, False, 'one', None))
        if pid == 'C18':
            combos.append(D + ('diagnostics', False, False, 'one', None))
            combos.append((2, 1, 3, 2, 'growing-reduce-delta', False, False, 'one', None))
        if pid == 'C02':
            combos.append(D + ('regression-geom', False, False, 2, None))     # (contains every path of the default preset)
        if pid == 'C19':
            combos.append(D + ('regression-geom', False, False, 'one', None))
        if pid == 'C08':
            combos = [D + ('default', False, True, 'one', None), D + ('default', False, False, 'one', 'raise'), D + ('default', False, False, 'one', 'raise1'),
                      D + ('diagnostics', False, False, 'one', 'badg')]
    else:
        G = (2, 1, 3, 2)
        one = lambda preset, dims=D, h=False, xr=False, ns='one', fault=None: dims + (preset, h, xr, ns, fault)
        THOROUGH = {
            # sized by wall time (each entry is one STEP exploration of up to ~7 min on 16 cores)
            'C02': [one('default'), one('default', ns=2), one('soft-restarts'), one('hard-restarts'), one('growing', G), one('noise', ns=2)],
            'C03': [one('default'), one('soft-restarts'), one('soft-restarts-2geom'), one('regression-momentum'), one('growing', G),
                    one('default', h=True), one('default', ns=2)],
            'C04': [one('default'), one('soft-restarts'), one('soft-restarts-2geom'), one('regression-geom'), one('growing-perturb', G),
                    one('default', h=True), one('default', (1, 1, 3, 3))],
            'C10': [one('default'), one('soft-restarts'), one('soft-restarts-autodetect'), one('noise'), one('hard-restarts'), one('default', xr=True)],
            'C18': [one('default'), one('diagnostics'), one('soft-restarts'), one('growing-reduce-delta', G), one('growing-safety-geom', G),
                    one('default', h=True)],
            'C01': [one('default'), one('growing', G), one('regression-momentum'), one('soft-restarts'), one('default', (2, 1, 3, 3))],
            'C19': [one('default'), one('regression-geom'), one('growing-perturb', G), one('regression-momentum'), one('growing', G)],
            'C11': [one('default'), one('soft-restarts'), one('hard-restarts')],
            'C08': [one('default', xr=True), one('default', fault='raise'), one('default', fault='raise1'), one('soft-restarts', fault='raise'),
                    one('soft-restarts', xr=True), one('noise', xr=True), one('default', h=True, xr=True), one('diagnostics', fault='badg'),
                    one('diagnostics', xr=True)],
        }
        combos = THOROUGH.get(pid, [one('default'), one('soft-restarts')])
    if pid == 'C09':
        combos = [D + ('default', False, False, 'one', None), D + ('regression-momentum', False, False, 'one', None)] if tier == 'quick' else \
            [D + (p_, False, False, 'one', None) for p_ in ('default', 'soft-restarts', 'regression-geom', 'regression-momentum')] + \
            [(2, 1, 3, 2, 'growing', False, False, 'one', None)]
    if pid == 'C04':
        # general convex constraints (two projectors): the ratio test has its own exit for a model increase - the whole iteration is checked
        combos = list(combos) + [D + ('default', False, False, 'one', None, True)]
    for combo in combos:
        (n, m, num_pts, npt_so_far, preset, with_h, xr, nsm, fault) = combo[:9]
        pfull = len(combo) > 9 and combo[9]
        name = "step[n=%d,m=%d,npt=%d/%d,%s,h=%d,xr=%d,ns=%s%s%s]" % (n, m, npt_so_far, num_pts, preset, with_h, xr, nsm, ',fault=' + fault if fault else '',
                                                                    ',projections' if (pid == 'C09' or pfull) else '')
        hs.append(Harness(name, 'dfverif.step', 'body',
                          params=dict(n=n, m=m, num_pts=num_pts, npt_so_far=npt_so_far, preset=preset, with_h=with_h, xr=xr,
                                      nsample_mode=nsm, fault=fault, proj=(pid == 'C09' or pfull), proj_full=pfull),
                          cfg=core.Cfg(qtimeout_ms=20000, uflin=True, max_depth=3000), functions=FUNCS,
                          bounds="one main-loop iteration from any state satisfying INV; n=%d, m=%d, %d of %d points, option preset '%s', samples per point %s" % (
                              n, m, npt_so_far, num_pts, preset, nsm),
                          assumptions=["INV: " + s for s in INV] + ["stub: " + s for s in STUBS],
                          expect=[], nproc=None, home='STEP', max_replays=3,
                          wall_budget=(600 if tier == 'quick' else 500)))
    return hs


def action_harnesses(tier, seed, pid):
    hs = []
    S, G = 'soft-restarts', 'growing-2dirs'
    combos = [('geometry_step', 1, 1, 2, S, 2, 2), ('soft_restart', 1, 1, 1, S, 2, 2), ('soft_restart', 2, 1, 1, G, 3, 2), ('add_new_direction', 2, 1, 1, G, 3, 2),
              ('soft_restart+npt', 1, 1, 1, S, 2, 2)] \
        if tier == 'quick' else \
        [('geometry_step', 1, 1, 2, S, 2, 2), ('geometry_step', 2, 1, 2, S, 3, 3), ('geometry_step', 1, 1, 3, S, 2, 2), ('soft_restart', 1, 1, 1, S, 2, 2),
         ('soft_restart', 2, 1, 1, S, 3, 3), ('soft_restart', 1, 1, 2, S, 2, 2), ('soft_restart', 2, 1, 1, G, 3, 2), ('add_new_direction', 2, 1, 1, G, 3, 2),
         ('add_new_direction', 2, 1, 2, G, 3, 2), ('add_new_direction', 2, 1, 1, G, 3, 3), ('soft_restart+npt', 1, 1, 1, S, 2, 2), ('soft_restart+npt', 1, 1, 2, S, 2, 2)]
    if pid in ('C18', 'C19'):
        combos = [c for c in combos if c[0] == 'soft_restart+npt']
    else:
        # the extra regression steps (non-default options): random 'momentum' directions and extra geometry steps
        combos = combos + [('momentum_step', 1, 1, 2, 'regression-momentum', 3, 3), ('extra_geom_steps', 1, 1, 2, 'regression-geom', 3, 3)]
        if tier != 'quick':
            combos = combos + [('momentum_step', 2, 1, 2, 'regression-momentum', 4, 4)]
    for (action, n, m, hi, preset, num_pts, npt_so_far) in combos:
        vary_npt = action.endswith('+npt')
        hs.append(Harness("action[%s,n=%d,m=%d,npt=%d/%d,samples<=%d]" % (action, n, m, npt_so_far, num_pts, hi), 'dfverif.step', 'body_action',
                          params=dict(action=action.split('+')[0], n=n, m=m, nsample_hi=hi, preset=preset, num_pts=num_pts, npt_so_far=npt_so_far, vary_npt=vary_npt),
                          cfg=core.Cfg(qtimeout_ms=20000, uflin=True, max_depth=3000),
                          functions=['controller.Controller.geometry_step', 'controller.Controller.soft_restart', 'controller.Controller.add_new_direction_while_growing',
                                     'controller.Controller.move_furthest_points', 'controller.Controller.move_furthest_points_momentum',
                                     'controller.Controller.evaluate_objective', 'controller.Controller.choose_point_to_replace',
                                     'model.Model.change_point', 'model.Model.add_new_sample', 'model.Model.save_point'],
                          bounds="one call of Controller.%s from any valid state; n=%d, m=%d, %d of %d points, up to %d samples per point, budget may end at any sample" % (
                              action, n, m, npt_so_far, num_pts, hi),
                          assumptions=["INV: " + s_ for s_ in INV[:3]] + ["stub: " + s_ for s_ in STUBS[:8]], home='STEP', nproc=None,
                          wall_budget=(300 if tier == 'quick' else 900), max_replays=3))
    return hs


def harnesses_for(pid, tier, seed):
    return step_harnesses(tier, seed, pid)
