"""
Symbolic scalars over z3.

* concrete ints stay Python ints; concrete floats are exact `Fraction`s (see loader: float
  literals of the dfols source are lifted to the exact rational they denote);
* SInt   - z3 Int term;
* SBool  - z3 Bool term; `bool()` forks through the current Path;
* SFloat - extended real: (nan flag, inf flag in {-1,0,1}, real value).  For values known to be
  finite the flags are the Python constants False / 0 and every operation reduces to plain
  real arithmetic (the "R" domain).  Rounding and overflow of finite operations are NOT modelled.
  `npy` records whether the run-time object would be a numpy scalar (numpy: x/0 -> inf/nan with a
  warning) or a Python float (ZeroDivisionError).
* SFP    - genuine IEEE binary64 (z3 FPSort(11,53), RNE), used only by the exactness harnesses.
"""
import math
from fractions import Fraction

import z3

from . import core

RNE = z3.RNE()
F64 = z3.Float64()
FLOAT_SQRT = False     # concrete validation mode: sqrt of a concrete value in floating point (as numpy does)


def _cur():
    p = core.CUR
    if p is None:
        raise RuntimeError("no current path")
    return p


# ---------------------------------------------------------------------------------------
# flag helpers (python constants or z3 terms)

def b_or(*xs):
    out = []
    for x in xs:
        if x is True:
            return True
        if x is False:
            continue
        out.append(x)
    if not out:
        return False
    return out[0] if len(out) == 1 else z3.Or(*out)


def b_and(*xs):
    out = []
    for x in xs:
        if x is False:
            return False
        if x is True:
            continue
        out.append(x)
    if not out:
        return True
    return out[0] if len(out) == 1 else z3.And(*out)


def b_not(x):
    if x is True:
        return False
    if x is False:
        return True
    return z3.Not(x)


def _zb(x):
    return z3.BoolVal(x) if isinstance(x, bool) else x


def b_ite(c, a, b):
    if c is True:
        return a
    if c is False:
        return b
    if a is b:
        return a
    if isinstance(a, bool) and isinstance(b, bool):
        if a == b:
            return a
        return c if a else z3.Not(c)
    return z3.If(c, _zb(a), _zb(b))


def _zi(x):
    return z3.IntVal(x) if isinstance(x, int) else x


def i_ite(c, a, b):
    if c is True:
        return a
    if c is False:
        return b
    if isinstance(a, int) and isinstance(b, int) and a == b:
        return a
    return z3.If(c, _zi(a), _zi(b))


def i_ne0(i):
    if isinstance(i, int):
        return i != 0
    return i != 0


def i_eq(a, b):
    if isinstance(a, int) and isinstance(b, int):
        return a == b
    return _zi(a) == _zi(b)


def i_lt(a, b):
    if isinstance(a, int) and isinstance(b, int):
        return a < b
    return _zi(a) < _zi(b)


def i_neg(a):
    if isinstance(a, int):
        return -a
    return -a


def _zr(v):
    """finite value (Fraction / int / z3 Real) -> z3 Real term"""
    if isinstance(v, Fraction):
        return z3.RealVal(str(v.numerator) + "/" + str(v.denominator)) if v.denominator != 1 else z3.RealVal(v.numerator)
    if isinstance(v, bool):
        return z3.RealVal(int(v))
    if isinstance(v, int):
        return z3.RealVal(v)
    return v


def r_cmp(op, a, b):
    """compare two finite values; returns python bool or z3 Bool"""
    if not z3.is_expr(a) and not z3.is_expr(b):
        return {'<': a < b, '<=': a <= b, '==': a == b, '>': a > b, '>=': a >= b, '!=': a != b}[op]
    a = _zr(a)
    b = _zr(b)
    if op == '<':
        return a < b
    if op == '<=':
        return a <= b
    if op == '==':
        return a == b
    if op == '>':
        return a > b
    if op == '>=':
        return a >= b
    return a != b


def wrapb(t):
    """python bool / z3 Bool -> python bool / SBool"""
    if isinstance(t, bool):
        return t
    t = z3.simplify(t)
    if z3.is_true(t):
        return True
    if z3.is_false(t):
        return False
    return SBool(t)


def bterm(x):
    """bool-like -> z3 Bool term"""
    if isinstance(x, SBool):
        return x.t
    if isinstance(x, bool):
        return z3.BoolVal(x)
    if z3.is_expr(x):
        return x
    try:
        import numpy as _np
        if isinstance(x, _np.bool_):
            return z3.BoolVal(bool(x))
    except ImportError:
        pass
    raise TypeError("not a bool-like: %r" % (x,))


def braw(x):
    """bool-like -> python bool or z3 term"""
    if isinstance(x, SBool):
        return x.t
    if isinstance(x, bool):
        return x
    if z3.is_expr(x):
        return x
    return bool(x)


class SBool(object):
    __slots__ = ('t',)

    def __init__(self, t):
        self.t = t

    def __bool__(self):
        return _cur().decide(self.t)

    def __and__(self, o):
        if getattr(o, '_is_sarr', False):
            return NotImplemented
        return wrapb(b_and(self.t, braw(o)))
    __rand__ = __and__

    def __or__(self, o):
        if getattr(o, '_is_sarr', False):
            return NotImplemented
        return wrapb(b_or(self.t, braw(o)))
    __ror__ = __or__

    def __invert__(self):
        return wrapb(z3.Not(self.t))

    def __xor__(self, o):
        if getattr(o, '_is_sarr', False):
            return NotImplemented
        return wrapb(z3.Xor(self.t, bterm(o)))
    __rxor__ = __xor__

    def __eq__(self, o):
        if getattr(o, '_is_sarr', False):
            return NotImplemented
        return wrapb(self.t == bterm(o))

    def __ne__(self, o):
        if getattr(o, '_is_sarr', False):
            return NotImplemented
        return wrapb(self.t != bterm(o))

    def __hash__(self):
        return id(self)

    def __repr__(self):
        return "SBool(%s)" % (str(self.t)[:80],)

    # numeric use of booleans (np.sum(active))
    def _as_int(self):
        return SInt(z3.If(self.t, z3.IntVal(1), z3.IntVal(0)))

    def __add__(self, o):
        if getattr(o, '_is_sarr', False):
            return NotImplemented
        return self._as_int() + o
    __radd__ = __add__

    def __index__(self):
        return 1 if bool(self) else 0


# ---------------------------------------------------------------------------------------

def is_sym(x):
    return isinstance(x, (SInt, SFloat, SBool, SFP))


def is_floatlike(x):
    return isinstance(x, (Fraction, SFloat, float, SFP))


def is_intlike(x):
    return (isinstance(x, int) and not isinstance(x, bool)) or isinstance(x, SInt)


class SInt(object):
    __slots__ = ('t',)

    def __init__(self, t):
        self.t = t

    @staticmethod
    def _oth(o):
        if isinstance(o, SInt):
            return o.t
        if isinstance(o, bool):
            return z3.IntVal(int(o))
        if isinstance(o, int):
            return z3.IntVal(o)
        if isinstance(o, SBool):
            return o._as_int().t
        try:
            import numpy as _np
            if isinstance(o, _np.integer):
                return z3.IntVal(int(o))
        except ImportError:
            pass
        return None

    def _w(self, t):
        t = z3.simplify(t)
        if z3.is_int_value(t):
            return t.as_long()
        return SInt(t)

    def _tofloat(self):
        return SFloat(z3.ToReal(self.t))

    def __add__(self, o):
        if getattr(o, '_is_sarr', False):
            return NotImplemented
        z = self._oth(o)
        if z is None:
            return self._tofloat() + o
        return self._w(self.t + z)
    __radd__ = __add__

    def __sub__(self, o):
        if getattr(o, '_is_sarr', False):
            return NotImplemented
        z = self._oth(o)
        if z is None:
            return self._tofloat() - o
        return self._w(self.t - z)

    def __rsub__(self, o):
        if getattr(o, '_is_sarr', False):
            return NotImplemented
        z = self._oth(o)
        if z is None:
            return o - self._tofloat()
        return self._w(z - self.t)

    def __mul__(self, o):
        if getattr(o, '_is_sarr', False):
            return NotImplemented
        z = self._oth(o)
        if z is None:
            return self._tofloat() * o
        return self._w(self.t * z)
    __rmul__ = __mul__

    def __neg__(self):
        return self._w(-self.t)

    def __pos__(self):
        return self

    def __abs__(self):
        return self._w(z3.If(self.t >= 0, self.t, -self.t))

    def __floordiv__(self, o):
        if getattr(o, '_is_sarr', False):
            return NotImplemented
        if isinstance(o, int) and o > 0:
            return self._w(self.t / z3.IntVal(o))
        o = int(o)
        return int(self) // o

    def __rfloordiv__(self, o):
        if getattr(o, '_is_sarr', False):
            return NotImplemented
        return o // int(self)

    def __mod__(self, o):
        if getattr(o, '_is_sarr', False):
            return NotImplemented
        if isinstance(o, int) and o > 0:
            return self._w(self.t % z3.IntVal(o))
        return int(self) % int(o)

    def __rmod__(self, o):
        if getattr(o, '_is_sarr', False):
            return NotImplemented
        return o % int(self)

    def __truediv__(self, o):
        if getattr(o, '_is_sarr', False):
            return NotImplemented
        return self._tofloat() / o

    def __rtruediv__(self, o):
        if getattr(o, '_is_sarr', False):
            return NotImplemented
        return o / self._tofloat()

    def __pow__(self, o):
        if isinstance(o, int) and o == 2:
            return self * self
        return int(self) ** o

    def _cmp(self, op, o):
        z = self._oth(o)
        if z is None:
            return self._tofloat()._cmp(op, o)
        a = self.t
        t = {'<': a < z, '<=': a <= z, '==': a == z, '!=': a != z, '>': a > z, '>=': a >= z}[op]
        return wrapb(t)

    def __lt__(self, o):
        if getattr(o, '_is_sarr', False):
            return NotImplemented
        return self._cmp('<', o)

    def __le__(self, o):
        if getattr(o, '_is_sarr', False):
            return NotImplemented
        return self._cmp('<=', o)

    def __gt__(self, o):
        if getattr(o, '_is_sarr', False):
            return NotImplemented
        return self._cmp('>', o)

    def __ge__(self, o):
        if getattr(o, '_is_sarr', False):
            return NotImplemented
        return self._cmp('>=', o)

    def __eq__(self, o):
        if getattr(o, '_is_sarr', False):
            return NotImplemented
        if o is None:
            return False
        return self._cmp('==', o)

    def __ne__(self, o):
        if getattr(o, '_is_sarr', False):
            return NotImplemented
        if o is None:
            return True
        return self._cmp('!=', o)

    def __hash__(self):
        return id(self)

    def __index__(self):
        return _cur().pick_int(self.t)

    def __int__(self):
        return _cur().pick_int(self.t)

    def __bool__(self):
        return bool(self != 0)

    def __repr__(self):
        return "SInt(%s)" % (str(self.t)[:80],)


# ---------------------------------------------------------------------------------------

def _wi(t):
    t = z3.simplify(t)
    if z3.is_int_value(t):
        return t.as_long()
    return SInt(t)



def _parts(x):
    """-> (nan, inf, value, npy) for any float-like / int-like"""
    if isinstance(x, SFloat):
        return x.nan, x.inf, x.v, x.npy
    if isinstance(x, bool):
        return False, 0, int(x), False
    if isinstance(x, (int, Fraction)):
        return False, 0, x, False
    if isinstance(x, SInt):
        return False, 0, z3.ToReal(x.t), False
    if isinstance(x, SBool):
        return False, 0, z3.ToReal(x._as_int().t), False
    if isinstance(x, float):
        if math.isnan(x):
            return True, 0, 0, False
        if math.isinf(x):
            return False, (1 if x > 0 else -1), 0, False
        return False, 0, Fraction(x), False
    try:
        import numpy as _np
        if isinstance(x, _np.floating):
            return _parts(float(x))
        if isinstance(x, _np.integer):
            return False, 0, int(x), True
        if isinstance(x, _np.bool_):
            return False, 0, int(bool(x)), True
    except ImportError:
        pass
    raise TypeError("not a number: %r" % (type(x),))


def _finite_flags(n, i):
    return n is False and isinstance(i, int) and i == 0


def _mk(nan, inf, v, npy, rad=None):
    """normalise: finite concrete -> Fraction/int; else SFloat"""
    if _finite_flags(nan, inf) and not z3.is_expr(v):
        if isinstance(v, int) and not isinstance(v, bool):
            return Fraction(v)
        return v
    if z3.is_expr(v):
        v = z3.simplify(v)
        if _finite_flags(nan, inf) and z3.is_rational_value(v):
            return Fraction(v.numerator_as_long(), v.denominator_as_long())
    return SFloat(v, nan, inf, npy, rad)


def _vsign(v):
    """sign of a finite value as python int or z3 Int term"""
    if not z3.is_expr(v):
        return (v > 0) - (v < 0)
    return z3.If(v > 0, z3.IntVal(1), z3.If(v < 0, z3.IntVal(-1), z3.IntVal(0)))


def _sgn(i, v):
    return i_ite(i_ne0(i), i, _vsign(v))


def _uf(name, arity):
    R = z3.RealSort()
    return z3.Function(name, *([R] * (arity + 1)))


def _val_mul(a, b):
    sa, sb = z3.is_expr(a), z3.is_expr(b)
    if not sa and not sb:
        return Fraction(a) * Fraction(b)
    if not sa or not sb:
        c, s = (a, b) if not sa else (b, a)
        if c == 0:
            return Fraction(0)
        if c == 1:
            return s
        return _zr(c) * s
    p = core.CUR
    if p is not None and p.cfg.uflin:
        # constant multiples are still linear: detect after simplification
        a = z3.simplify(a)
        b = z3.simplify(b)
        if z3.is_rational_value(a) or z3.is_rational_value(b):
            return a * b
        if a.get_id() == b.get_id():
            f = _uf('usq', 1)
            m = f(a)
            key = ('usq', m.get_id())
            if key not in p.ghost:
                p.ghost[key] = m
                p.exact.append(m == a * a)
                p.axiom(m >= 0)
                p.axiom((m == 0) == (a == 0))
                p.axiom(z3.Implies(z3.And(a >= -1, a <= 1), m <= 1))
                p.axiom(z3.Implies(z3.Or(a >= 1, a <= -1), m >= 1))
            return m
        if a.get_id() > b.get_id():
            a, b = b, a
        f = _uf('umul', 2)
        m = f(a, b)
        key = ('umul', m.get_id())
        if key not in p.ghost:
            p.ghost[key] = m
            p.exact.append(m == a * b)
            p.axiom(z3.Or(a == 0, b == 0) == (m == 0))
            p.axiom(z3.Or(z3.And(a > 0, b > 0), z3.And(a < 0, b < 0)) == (m > 0))
        return m
    return a * b


def _val_div(a, b):
    """a / b for finite values, b known/assumed non-zero"""
    sa, sb = z3.is_expr(a), z3.is_expr(b)
    if not sb:
        if not sa:
            return Fraction(a) / Fraction(b)
        if b == 1:
            return a
        return a * _zr(Fraction(1) / Fraction(b))
    p = core.CUR
    if p is not None and p.cfg.uflin:
        az = z3.simplify(_zr(a))
        b = z3.simplify(b)
        if z3.is_rational_value(b):
            return az / b
        f = _uf('udiv', 2)
        q = f(az, b)
        key = ('udiv', q.get_id())
        if key not in p.ghost:
            p.ghost[key] = q
            p.exact.append(z3.Implies(b != 0, q * b == az))
            nz = b != 0
            p.axiom(z3.Implies(nz, (q == 0) == (az == 0)))
            p.axiom(z3.Implies(nz, (q > 0) == z3.Or(z3.And(az > 0, b > 0), z3.And(az < 0, b < 0))))
            p.axiom(z3.Implies(b > 0, z3.And((q >= 1) == (az >= b), (q <= 1) == (az <= b))))
            p.axiom(z3.Implies(b < 0, z3.And((q >= 1) == (az <= b), (q <= 1) == (az >= b))))
            p.axiom(z3.Implies(az == b, z3.Implies(nz, q == 1)))
        return q
    return _zr(a) / b


class SFloat(object):
    __slots__ = ('v', 'nan', 'inf', 'npy', 'rad')

    def __init__(self, v, nan=False, inf=0, npy=False, rad=None):
        self.v = v
        self.nan = nan
        self.inf = inf
        self.npy = npy
        self.rad = rad

    # -- predicates on flags
    def is_finite_term(self):
        return b_and(b_not(self.nan), b_not(i_ne0(self.inf)))

    def surely_finite(self):
        return _finite_flags(self.nan, self.inf)

    def as_np(self):
        if self.npy:
            return self
        return SFloat(self.v, self.nan, self.inf, True, self.rad)

    # -- arithmetic
    def __add__(self, o):
        if getattr(o, '_is_sarr', False):
            return NotImplemented
        return f_add(self, o)

    def __radd__(self, o):
        if getattr(o, '_is_sarr', False):
            return NotImplemented
        return f_add(o, self)

    def __sub__(self, o):
        if getattr(o, '_is_sarr', False):
            return NotImplemented
        return f_add(self, f_neg(o))

    def __rsub__(self, o):
        if getattr(o, '_is_sarr', False):
            return NotImplemented
        return f_add(o, f_neg(self))

    def __mul__(self, o):
        if getattr(o, '_is_sarr', False):
            return NotImplemented
        return f_mul(self, o)

    def __rmul__(self, o):
        if getattr(o, '_is_sarr', False):
            return NotImplemented
        return f_mul(o, self)

    def __truediv__(self, o):
        if getattr(o, '_is_sarr', False):
            return NotImplemented
        return f_div(self, o)

    def __rtruediv__(self, o):
        if getattr(o, '_is_sarr', False):
            return NotImplemented
        return f_div(o, self)

    def __neg__(self):
        return f_neg(self)

    def __pos__(self):
        return self

    def __abs__(self):
        return f_abs(self)

    def __pow__(self, o):
        return f_pow(self, o)

    def _cmp(self, op, o):
        return f_cmp(op, self, o)

    def __lt__(self, o):
        if getattr(o, '_is_sarr', False):
            return NotImplemented
        return f_cmp('<', self, o)

    def __le__(self, o):
        if getattr(o, '_is_sarr', False):
            return NotImplemented
        return f_cmp('<=', self, o)

    def __gt__(self, o):
        if getattr(o, '_is_sarr', False):
            return NotImplemented
        return f_cmp('>', self, o)

    def __ge__(self, o):
        if getattr(o, '_is_sarr', False):
            return NotImplemented
        return f_cmp('>=', self, o)

    def __eq__(self, o):
        if getattr(o, '_is_sarr', False):
            return NotImplemented
        if o is None:
            return False
        return f_cmp('==', self, o)

    def __ne__(self, o):
        if getattr(o, '_is_sarr', False):
            return NotImplemented
        if o is None:
            return True
        return f_cmp('!=', self, o)

    def __hash__(self):
        return id(self)

    def __bool__(self):
        return bool(f_cmp('!=', self, 0))

    def __float__(self):
        raise TypeError("symbolic float used where a concrete float is required")

    def __repr__(self):
        return "SFloat(%s%s)" % (str(self.v)[:60], "" if self.surely_finite() else ", xr")


NAN = SFloat(0, True, 0, False)
PINF = SFloat(0, False, 1, False)
NINF = SFloat(0, False, -1, False)


def tofloat(x):
    """python float() semantics on the model: returns a py-typed float-like"""
    if isinstance(x, SFloat):
        if x.npy:
            return SFloat(x.v, x.nan, x.inf, False, x.rad)
        return x
    if isinstance(x, SFP):
        return x
    if isinstance(x, str):
        s = x.strip().lower()
        if s in ('inf', '+inf', 'infinity'):
            return PINF
        if s == '-inf':
            return NINF
        if s == 'nan':
            return NAN
        return Fraction(x)
    n, i, v, npy = _parts(x)
    return _mk(n, i, v if not isinstance(v, int) or z3.is_expr(v) else Fraction(v), False)


def f_neg(a):
    if isinstance(a, SFP):
        return -a
    n, i, v, npy = _parts(a)
    return _mk(n, i_neg(i) if not isinstance(i, int) else -i, -v, npy)


def f_add(a, b):
    if isinstance(a, SFP) or isinstance(b, SFP):
        return SFP.lift(a) + SFP.lift(b)
    na, ia, va, pa = _parts(a)
    nb, ib, vb, pb = _parts(b)
    npy = pa or pb
    if _finite_flags(na, ia) and _finite_flags(nb, ib):
        if not z3.is_expr(va) and not z3.is_expr(vb):
            return Fraction(va) + Fraction(vb)
        return _mk(False, 0, _zr(va) + _zr(vb), npy)
    nan = b_or(na, nb, b_and(i_ne0(ia), i_ne0(ib), b_not(i_eq(ia, ib))))
    inf = i_ite(i_ne0(ia), ia, ib)
    if z3.is_expr(va) or z3.is_expr(vb):
        v = _zr(va) + _zr(vb)
    else:
        v = Fraction(va) + Fraction(vb)
    return _mk(nan, inf, v, npy)


def f_mul(a, b):
    if isinstance(a, SFP) or isinstance(b, SFP):
        return SFP.lift(a) * SFP.lift(b)
    na, ia, va, pa = _parts(a)
    nb, ib, vb, pb = _parts(b)
    npy = pa or pb
    if _finite_flags(na, ia) and _finite_flags(nb, ib):
        if a is b and isinstance(a, SFloat) and a.rad is not None:
            return a.rad
        return _mk(False, 0, _val_mul(va, vb), npy)
    za = b_and(b_not(i_ne0(ia)), r_cmp('==', va, 0))
    zb = b_and(b_not(i_ne0(ib)), r_cmp('==', vb, 0))
    anyinf = b_or(i_ne0(ia), i_ne0(ib))
    nan = b_or(na, nb, b_and(i_ne0(ia), zb), b_and(i_ne0(ib), za))
    sa = _sgn(ia, va)
    sb = _sgn(ib, vb)
    same = i_eq(sa, sb)
    inf = i_ite(anyinf, i_ite(same, 1, -1), 0)
    v = _val_mul(va, vb)
    return _mk(nan, inf, v, npy)


def f_div(a, b):
    if isinstance(a, SFP) or isinstance(b, SFP):
        return SFP.lift(a) / SFP.lift(b)
    na, ia, va, pa = _parts(a)
    nb, ib, vb, pb = _parts(b)
    npy = pa or pb
    fin_a = _finite_flags(na, ia)
    fin_b = _finite_flags(nb, ib)
    if fin_b and not z3.is_expr(vb):
        if vb == 0:
            if not npy:
                raise ZeroDivisionError("float division by zero")
            za = b_and(b_not(i_ne0(ia)), r_cmp('==', va, 0))
            return _mk(b_or(na, za), i_ite(b_or(na, za), 0, _sgn(ia, va)), 0, npy)
        if fin_a:
            return _mk(False, 0, _val_div(va, vb), npy)
        return _mk(na, i_ite(i_ne0(ia), (ia if vb > 0 else i_neg(ia)), 0), _val_div(va, vb), npy)
    # symbolic (or non-finite) divisor
    zb = b_and(b_not(i_ne0(ib)), b_not(nb), r_cmp('==', vb, 0))
    if not npy:
        # python float semantics: ZeroDivisionError
        if bool(wrapb(zb)):
            raise ZeroDivisionError("float division by zero")
        zb = False
    za = b_and(b_not(i_ne0(ia)), r_cmp('==', va, 0))
    nan = b_or(na, nb, b_and(i_ne0(ia), i_ne0(ib)), b_and(zb, za))
    sb_ = _sgn(ib, vb)
    sb_nz = i_ite(zb, 1, sb_)    # +0 assumed for a zero divisor (negative zero not modelled)
    sa_ = _sgn(ia, va)
    prod = i_ite(i_eq(sa_, sb_nz), 1, -1)
    inf = i_ite(b_and(i_ne0(ia), b_not(i_ne0(ib))), prod,
                i_ite(b_and(zb, b_not(za), b_not(i_ne0(ia))), prod, 0))
    q = _val_div(va, vb)
    v = q
    if not (isinstance(ib, int) and ib == 0):
        v = z3.If(_zi(ib) != 0, z3.RealVal(0), _zr(q))
    return _mk(nan, inf, v, npy)


def f_abs(a):
    if isinstance(a, SFP):
        return abs(a)
    if isinstance(a, (int, Fraction)):
        return abs(a)
    if isinstance(a, SInt):
        return abs(a)
    n, i, v, npy = _parts(a)
    if z3.is_expr(v):
        v2 = z3.If(v >= 0, v, -v)
    else:
        v2 = abs(v)
    i2 = i if isinstance(i, int) and i == 0 else i_ite(i_ne0(i), 1, 0)
    return _mk(n, i2, v2, npy)


def f_pow(a, k):
    if isinstance(k, Fraction) and k.denominator == 1:
        k = int(k)
    if isinstance(k, int) and not isinstance(k, bool):
        if k == 2:
            if isinstance(a, SFloat) and a.rad is not None and a.surely_finite():
                return a.rad
            return f_mul(a, a)
        if k == 1:
            return a
        if k == 0:
            return Fraction(1)
        if k > 0:
            r = a
            for _ in range(k - 1):
                r = f_mul(r, a)
            return r
        return f_div(1, f_pow(a, -k))
    if isinstance(k, Fraction) and k == Fraction(1, 2):
        return f_sqrt(a, np_sem=True)
    raise PathAbortUnsupported("power %r" % (k,))


def PathAbortUnsupported(msg):
    return core.PathAbort('unsupported', msg)


def f_cmp(op, a, b):
    if isinstance(a, SFP) or isinstance(b, SFP):
        return SFP.lift(a)._cmp(op, SFP.lift(b))
    na, ia, va, _ = _parts(a)
    nb, ib, vb, _ = _parts(b)
    if _finite_flags(na, ia) and _finite_flags(nb, ib):
        return wrapb(r_cmp(op, va, vb))
    nonan = b_and(b_not(na), b_not(nb))
    bothfin = b_and(b_not(i_ne0(ia)), b_not(i_ne0(ib)))
    if op == '<':
        t = b_and(nonan, b_or(i_lt(ia, ib), b_and(bothfin, r_cmp('<', va, vb))))
    elif op == '<=':
        t = b_and(nonan, b_or(i_lt(ia, ib), b_and(bothfin, r_cmp('<=', va, vb)),
                              b_and(i_ne0(ia), i_eq(ia, ib))))
    elif op == '>':
        t = b_and(nonan, b_or(i_lt(ib, ia), b_and(bothfin, r_cmp('>', va, vb))))
    elif op == '>=':
        t = b_and(nonan, b_or(i_lt(ib, ia), b_and(bothfin, r_cmp('>=', va, vb)),
                              b_and(i_ne0(ia), i_eq(ia, ib))))
    elif op == '==':
        t = b_and(nonan, i_eq(ia, ib), b_or(i_ne0(ia), r_cmp('==', va, vb)))
    else:
        t = b_not(b_and(nonan, i_eq(ia, ib), b_or(i_ne0(ia), r_cmp('==', va, vb))))
    return wrapb(t)


def ite(c, a, b):
    """value-level if-then-else on scalars (no fork)"""
    c = braw(c)
    if c is True:
        return a
    if c is False:
        return b
    if a is b:
        return a
    if isinstance(a, SFP) or isinstance(b, SFP):
        return SFP(z3.If(c, SFP.lift(a).t, SFP.lift(b).t))
    if isinstance(a, (SBool, bool)) and isinstance(b, (SBool, bool)):
        return wrapb(b_ite(c, braw(a), braw(b)))
    if is_intlike(a) and is_intlike(b):
        return _wi(z3.If(c, SInt._oth(a), SInt._oth(b)))
    na, ia, va, pa = _parts(a)
    nb, ib, vb, pb = _parts(b)
    if not z3.is_expr(va) and not z3.is_expr(vb) and Fraction(va) == Fraction(vb):
        v = va
    else:
        v = z3.If(c, _zr(va), _zr(vb))
    return _mk(b_ite(c, na, nb), i_ite(c, ia, ib), v, pa or pb)


def f_isnan(a):
    if isinstance(a, SFP):
        return wrapb(z3.fpIsNaN(a.t))
    n, i, v, _ = _parts(a)
    return wrapb(n)


def f_isinf(a):
    if isinstance(a, SFP):
        return wrapb(z3.fpIsInf(a.t))
    n, i, v, _ = _parts(a)
    return wrapb(b_and(b_not(n), i_ne0(i)))


def f_isfinite(a):
    if isinstance(a, SFP):
        return wrapb(z3.Not(z3.Or(z3.fpIsNaN(a.t), z3.fpIsInf(a.t))))
    n, i, v, _ = _parts(a)
    return wrapb(b_and(b_not(n), b_not(i_ne0(i))))


def _exact_sqrt(q):
    q = Fraction(q)
    if q < 0:
        return None
    rn = math.isqrt(q.numerator)
    rd = math.isqrt(q.denominator)
    if rn * rn == q.numerator and rd * rd == q.denominator:
        return Fraction(rn, rd)
    return None


def f_sqrt(a, np_sem=False):
    """sqrt; math.sqrt semantics (ValueError for negative) unless np_sem (nan)."""
    if isinstance(a, SFP):
        return SFP(z3.fpSqrt(RNE, a.t))
    n, i, v, npy = _parts(a)
    p = _cur()
    if _finite_flags(n, i) and not z3.is_expr(v):
        if v < 0:
            if np_sem:
                return NAN
            raise ValueError("math domain error")
        r = _exact_sqrt(v)
        if r is not None:
            return r
        if FLOAT_SQRT:
            return Fraction(math.sqrt(float(v)))
        key = ('sqrtc', Fraction(v))
        y = p.ghost.get(key)
        if y is None:
            y = z3.Real(p.fresh_name('sqrtc'))
            p.ghost[key] = y
            fl = Fraction(math.sqrt(float(v)))
            lo, hi = fl * (1 - Fraction(1, 10**12)), fl * (1 + Fraction(1, 10**12))
            p.axiom(z3.And(y > _zr(lo), y < _zr(hi)))
            if not p.cfg.uflin:
                p.axiom(y * y == _zr(Fraction(v)))
            else:
                p.exact.append(y * y == _zr(Fraction(v)))
        return SFloat(y, False, 0, np_sem, Fraction(v))
    # symbolic
    vz = _zr(v)
    neg = b_and(b_not(i_ne0(i)), b_not(n), r_cmp('<', vz, 0))
    neginf = b_and(b_not(n), i_lt(i, 0))
    bad = b_or(neg, neginf)
    if bool(wrapb(bad)):
        if np_sem:
            return NAN
        raise ValueError("math domain error")
    bad = False
    vzs = z3.simplify(vz)
    key = ('sqrt', vzs.get_id())
    ent = p.ghost.get(key)
    if ent is None:
        y = z3.Real(p.fresh_name('sqrt'))
        p.ghost[key] = (y, vz, vzs)      # keep the simplified term alive: its AST id is the cache key
        p.axiom(y >= 0)
        if p.cfg.uflin:
            p.exact.append(z3.Implies(vz >= 0, y * y == vz))
            p.axiom(z3.Implies(vz >= 0, (y == 0) == (vz == 0)))
            p.axiom(z3.Implies(vz >= 1, z3.And(y >= 1, y <= vz)))
            p.axiom(z3.Implies(z3.And(vz >= 0, vz <= 1), z3.And(y <= 1, y >= vz)))
        else:
            p.axiom(z3.Implies(vz >= 0, y * y == vz))
    else:
        y = ent[0]
    nan = b_or(n, bad)
    inf = i if isinstance(i, int) and i == 0 else i_ite(b_and(b_not(n), i_lt(0, i)), 1, 0)
    rad = a if (nan is False and isinstance(inf, int) and inf == 0) else None
    return SFloat(y, nan, inf, np_sem or npy, rad)


def f_log(a):
    """math.log as an uninterpreted strictly monotone function (ValueError for <= 0)."""
    n, i, v, npy = _parts(a)
    p = _cur()
    if not _finite_flags(n, i):
        raise core.PathAbort('unsupported', 'log of non-finite')
    vz = _zr(v)
    if bool(wrapb(r_cmp('<=', vz, 0))):
        raise ValueError("math domain error")
    f = z3.Function('ulog', z3.RealSort(), z3.RealSort())
    y = f(vz)
    lst = p.ghost.setdefault('ulog', [])
    for (ov, oy) in lst:
        p.axiom((vz < ov) == (y < oy))
        p.axiom((vz == ov) == (y == oy))
    lst.append((vz, y))
    p.axiom((vz > 1) == (y > 0))
    p.axiom((vz == 1) == (y == 0))
    return SFloat(y, False, 0, False)


def f_min2(a, b):
    """python builtin min(a, b): b if b < a else a"""
    return ite(f_cmp('<', b, a) if not (is_intlike(a) and is_intlike(b)) else (b < a), b, a)


def f_max2(a, b):
    return ite(f_cmp('>', b, a) if not (is_intlike(a) and is_intlike(b)) else (b > a), b, a)


def np_minimum2(a, b):
    """np.minimum: propagates NaN"""
    if isinstance(a, SFP) or isinstance(b, SFP):
        a, b = SFP.lift(a), SFP.lift(b)
        return SFP(z3.If(z3.fpIsNaN(a.t), a.t, z3.If(z3.fpIsNaN(b.t), b.t, z3.If(z3.fpLEQ(a.t, b.t), a.t, b.t))))
    if is_intlike(a) and is_intlike(b):
        return ite(b < a, b, a)
    r = ite(f_cmp('<', b, a), b, a)
    na, nb = _parts(a)[0], _parts(b)[0]
    if na is False and nb is False:
        return r
    return ite(na, a, ite(nb, b, r))


def np_maximum2(a, b):
    if isinstance(a, SFP) or isinstance(b, SFP):
        a, b = SFP.lift(a), SFP.lift(b)
        return SFP(z3.If(z3.fpIsNaN(a.t), a.t, z3.If(z3.fpIsNaN(b.t), b.t, z3.If(z3.fpGEQ(a.t, b.t), a.t, b.t))))
    if is_intlike(a) and is_intlike(b):
        return ite(b > a, b, a)
    r = ite(f_cmp('>', b, a), b, a)
    na, nb = _parts(a)[0], _parts(b)[0]
    if na is False and nb is False:
        return r
    return ite(na, a, ite(nb, b, r))


# ---------------------------------------------------------------------------------------
# IEEE binary64

class SFP(object):
    __slots__ = ('t',)

    def __init__(self, t):
        self.t = t

    @staticmethod
    def lift(x):
        if isinstance(x, SFP):
            return x
        if isinstance(x, Fraction):
            f = float(x)
            if Fraction(f) != x:
                raise core.PathAbort('unsupported', 'non-representable constant %s in FP domain' % x)
            return SFP(z3.FPVal(f, F64))
        if isinstance(x, bool):
            return SFP(z3.FPVal(float(x), F64))
        if isinstance(x, (int, float)):
            return SFP(z3.FPVal(float(x), F64))
        if isinstance(x, SFloat):
            if x.nan is True:
                return SFP(z3.fpNaN(F64))
            if isinstance(x.inf, int) and x.inf != 0 and x.nan is False:
                return SFP(z3.fpPlusInfinity(F64) if x.inf > 0 else z3.fpMinusInfinity(F64))
        raise core.PathAbort('unsupported', 'cannot lift %r to FP' % (type(x),))

    def __add__(self, o):
        if getattr(o, '_is_sarr', False):
            return NotImplemented
        return SFP(z3.fpAdd(RNE, self.t, SFP.lift(o).t))

    def __radd__(self, o):
        if getattr(o, '_is_sarr', False):
            return NotImplemented
        return SFP(z3.fpAdd(RNE, SFP.lift(o).t, self.t))

    def __sub__(self, o):
        if getattr(o, '_is_sarr', False):
            return NotImplemented
        return SFP(z3.fpSub(RNE, self.t, SFP.lift(o).t))

    def __rsub__(self, o):
        if getattr(o, '_is_sarr', False):
            return NotImplemented
        return SFP(z3.fpSub(RNE, SFP.lift(o).t, self.t))

    def __mul__(self, o):
        if getattr(o, '_is_sarr', False):
            return NotImplemented
        return SFP(z3.fpMul(RNE, self.t, SFP.lift(o).t))

    def __rmul__(self, o):
        if getattr(o, '_is_sarr', False):
            return NotImplemented
        return SFP(z3.fpMul(RNE, SFP.lift(o).t, self.t))

    def __truediv__(self, o):
        if getattr(o, '_is_sarr', False):
            return NotImplemented
        return SFP(z3.fpDiv(RNE, self.t, SFP.lift(o).t))

    def __rtruediv__(self, o):
        if getattr(o, '_is_sarr', False):
            return NotImplemented
        return SFP(z3.fpDiv(RNE, SFP.lift(o).t, self.t))

    def __neg__(self):
        return SFP(z3.fpNeg(self.t))

    def __abs__(self):
        return SFP(z3.fpAbs(self.t))

    def _cmp(self, op, o):
        o = SFP.lift(o)
        a, b = self.t, o.t
        t = {'<': z3.fpLT(a, b), '<=': z3.fpLEQ(a, b), '>': z3.fpGT(a, b), '>=': z3.fpGEQ(a, b),
             '==': z3.fpEQ(a, b), '!=': z3.Not(z3.fpEQ(a, b))}[op]
        return wrapb(t)

    def __lt__(self, o):
        if getattr(o, '_is_sarr', False):
            return NotImplemented
        return self._cmp('<', o)

    def __le__(self, o):
        if getattr(o, '_is_sarr', False):
            return NotImplemented
        return self._cmp('<=', o)

    def __gt__(self, o):
        if getattr(o, '_is_sarr', False):
            return NotImplemented
        return self._cmp('>', o)

    def __ge__(self, o):
        if getattr(o, '_is_sarr', False):
            return NotImplemented
        return self._cmp('>=', o)

    def __eq__(self, o):
        if getattr(o, '_is_sarr', False):
            return NotImplemented
        if o is None:
            return False
        return self._cmp('==', o)

    def __ne__(self, o):
        if getattr(o, '_is_sarr', False):
            return NotImplemented
        if o is None:
            return True
        return self._cmp('!=', o)

    def __hash__(self):
        return id(self)

    def __repr__(self):
        return "SFP(%s)" % (str(self.t)[:60],)


# ---------------------------------------------------------------------------------------
# constructors

def fresh_real(name, npy=False, xr=False, inp=True):
    p = _cur()
    nm = p.fresh_name(name)
    v = z3.Real(nm)
    if inp:
        p.register_input(nm, v)
    if not xr:
        return SFloat(v, False, 0, npy)
    nan = z3.Bool(nm + '.nan')
    inf = z3.Int(nm + '.inf')
    p.axiom(z3.And(inf >= -1, inf <= 1))
    p.axiom(z3.Implies(nan, inf == 0))
    if inp:
        p.register_input(nm + '.nan', nan)
        p.register_input(nm + '.inf', inf)
    return SFloat(v, nan, inf, npy)


def fresh_int(name, lo=None, hi=None, inp=True):
    p = _cur()
    nm = p.fresh_name(name)
    v = z3.Int(nm)
    if inp:
        p.register_input(nm, v)
    if lo is not None:
        p.axiom(v >= lo)
    if hi is not None:
        p.axiom(v <= hi)
    return SInt(v)


def fresh_bool(name, inp=True):
    p = _cur()
    nm = p.fresh_name(name)
    v = z3.Bool(nm)
    if inp:
        p.register_input(nm, v)
    return SBool(v)


def fresh_fp(name, inp=True):
    p = _cur()
    nm = p.fresh_name(name)
    v = z3.FP(nm, F64)
    if inp:
        p.register_input(nm, v)
    return SFP(v)


def assume(c):
    if isinstance(c, bool):
        _cur().assume(c)
    else:
        _cur().assume(bterm(c))


def prove(c, label, detail=None, extra_eval=None):
    if isinstance(c, bool):
        return _cur().prove(c, label, detail=detail, extra_eval=extra_eval)
    return _cur().prove(bterm(c), label, detail=detail, extra_eval=extra_eval)


def all_of(xs):
    return wrapb(b_and(*[braw(x) for x in xs]))


def any_of(xs):
    return wrapb(b_or(*[braw(x) for x in xs]))


def implies(a, b):
    return wrapb(b_or(b_not(braw(a)), braw(b)))
