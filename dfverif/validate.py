"""
Shim validation (translation validation of the environment model, DESIGN 2.6).

1. the repository's own test-suite is run once with recording wrappers around functions the harnesses encode;
2. every recorded concrete call is pushed through the SAME pipeline the harnesses use (real source loaded over the
   symbolic numpy model, here holding exact rationals) and compared with the recorded real result (1e-8 relative);
3. a few numpy-semantics spot checks of the array model (views, masks, broadcasting, NaN rules).
Exit 0 = model agrees with numpy on everything replayed; 2 = disagreement (harness error: nothing is believed).
"""
import os
import sys
import math
import time
import pickle
import signal
import subprocess
import tempfile
from fractions import Fraction

import numpy as np

from . import core, sym, arr, shim, loader
from .arr import SArr


def to_model(x):
    if isinstance(x, np.ndarray):
        kind = 'i' if x.dtype.kind in 'iu' else ('b' if x.dtype.kind == 'b' else 'f')
        vals = [v.item() for v in x.flatten()]
        return SArr.from_flat(vals, x.shape, kind)
    if isinstance(x, float):
        return arr._fl(x)
    if isinstance(x, (list, tuple)):
        t = [to_model(v) for v in x]
        return tuple(t) if isinstance(x, tuple) else t
    return x


def to_float(x):
    if isinstance(x, SArr):
        return np.array([to_float(v) for v in x.flat()], dtype=float).reshape(x.shape)
    if isinstance(x, sym.SFloat):
        if x.nan is True:
            return float('nan')
        if isinstance(x.inf, int) and x.inf != 0:
            return float('inf') * x.inf
        raise ValueError("symbolic value in concrete validation")
    if isinstance(x, (Fraction, int, float, bool)):
        return float(x)
    if isinstance(x, (list, tuple)):
        return [to_float(v) for v in x]
    return x


def close(a, b, tol=1e-8):
    a = np.asarray(a, dtype=float)
    b = np.asarray(b, dtype=float)
    if a.shape != b.shape:
        return False
    import warnings
    with np.errstate(all='ignore'), warnings.catch_warnings():
        warnings.simplefilter('ignore')
        ok = np.isclose(a, b, rtol=tol, atol=tol * (1 + float(np.nanmax(np.abs(b))) if b.size else tol), equal_nan=True)
    return bool(np.all(ok))


class _Timeout(Exception):
    pass


def _alarm(signum, frame):
    raise _Timeout()


def replay_recorded(rec, per_call_s=10):
    ns = loader.load_modules()
    shim.HOOKS.float_sqrt = True
    sym.FLOAT_SQRT = True
    stats = {'calls': 0, 'agree': 0, 'disagree': 0, 'skipped_timeout': 0, 'by_function': {}}
    bad = []
    signal.signal(signal.SIGALRM, _alarm)
    for name, calls in sorted(rec.items()):
        if name.startswith('Model.'):
            _replay_methods(ns, name, calls, stats, bad, per_call_s)
            continue
        if name not in ns:
            continue
        fs = stats['by_function'].setdefault(name, {'calls': 0, 'agree': 0, 'timeout': 0})
        for (a, k, res) in calls:
            p = core.Path(core.Cfg(), [])
            core.CUR = p
            try:
                signal.alarm(per_call_s)
                kk = {kn: to_model(v) for kn, v in k.items()}
                if name in ('trsbox', 'trsbox_geometry', 'trsbox_linear'):
                    kk['use_fortran'] = False
                out = ns[name](*[to_model(v) for v in a], **kk)
                signal.alarm(0)
            except _Timeout:
                stats['skipped_timeout'] += 1
                fs['timeout'] += 1
                continue
            except Exception as e:     # noqa
                signal.alarm(0)
                bad.append((name, 'raised %s: %s' % (type(e).__name__, str(e)[:100])))
                stats['disagree'] += 1
                continue
            finally:
                core.CUR = None
            stats['calls'] += 1
            fs['calls'] += 1
            got = to_float(out)
            exp = res
            ok = True
            if isinstance(exp, (tuple, list)) and not isinstance(exp, np.ndarray):
                for g_, e_ in zip(got, exp):
                    ok = ok and close(g_, e_)
            else:
                ok = close(got, exp)
            if ok:
                stats['agree'] += 1
                fs['agree'] += 1
            else:
                stats['disagree'] += 1
                bad.append((name, 'model %r vs numpy %r' % (str(got)[:80], str(exp)[:80])))
    shim.HOOKS.float_sqrt = False
    sym.FLOAT_SQRT = False
    return stats, bad


def _cmp(got, exp):
    if exp is None:
        return got is None
    if isinstance(exp, (tuple, list)) and not isinstance(exp, np.ndarray):
        if not isinstance(got, (tuple, list)) or len(got) != len(exp):
            return False
        return all(_cmp(g_, e_) for g_, e_ in zip(got, exp))
    if isinstance(exp, bool):
        return bool(got) == exp
    if isinstance(exp, str):
        return got == exp
    try:
        return close(to_float(got), exp, tol=1e-7)
    except Exception:      # noqa
        return False


def _replay_methods(ns, name, calls, stats, bad, per_call_s):
    meth = name.split('.', 1)[1]
    Model = ns['Model']
    fs = stats['by_function'].setdefault(name, {'calls': 0, 'agree': 0, 'timeout': 0})
    for (before, a, k, res, after) in calls:
        core.CUR = core.Path(core.Cfg(), [])
        M = Model.__new__(Model)
        for kk, v in before.items():
            setattr(M, kk, to_model(v))
        M.Q = M.R = None
        M.factorisation_current = False
        try:
            signal.alarm(per_call_s)
            out = getattr(M, meth)(*[to_model(v) for v in a], **{kn: to_model(v) for kn, v in k.items()})
            signal.alarm(0)
        except _Timeout:
            stats['skipped_timeout'] += 1
            fs['timeout'] += 1
            continue
        except core.PathAbort as e:
            signal.alarm(0)
            stats['skipped_timeout'] += 1
            fs['timeout'] += 1
            continue
        except Exception as e:     # noqa
            signal.alarm(0)
            bad.append((name, 'raised %s: %s' % (type(e).__name__, str(e)[:120])))
            stats['disagree'] += 1
            continue
        finally:
            core.CUR = None
        stats['calls'] += 1
        fs['calls'] += 1
        ok = _cmp(out, res)
        why = 'return value'
        if ok:
            for kk, v in after.items():
                if kk in ('factorisation_current', 'left_scaling', 'right_scaling', 'qr_of_transpose'):
                    continue
                if not _cmp(getattr(M, kk, None), v):
                    ok = False
                    why = 'attribute ' + kk
                    break
        if ok:
            stats['agree'] += 1
            fs['agree'] += 1
        else:
            stats['disagree'] += 1
            bad.append((name, 'differs in %s' % why))


def spot_checks():
    """array-model semantics against real numpy on fixed small cases"""
    bad = []
    snp = shim.np
    core.CUR = core.Path(core.Cfg(), [])
    try:
        A = np.arange(12, dtype=float).reshape(3, 4)
        S = to_model(A)
        cases = [
            ('row view write', lambda a: (a[1, :].__setitem__(slice(None), a[0, :] * 2), a)[1]),
            ('col slice', lambda a: a[:, 1:3].copy()),
            ('transpose view', lambda a: a.T[2, :].copy()),
            ('fancy rows swap', lambda a: (a.__setitem__(([0, 2], slice(None)), a[[2, 0], :]), a)[1]),
            ('broadcast col scale', lambda a: (a.T * a[:, 0]).T),
            ('bool mask assign', lambda a: (a.__setitem__(a > 5, -1.0), a)[1]),
        ]
        for name, fn in cases:
            r_np = fn(A.copy())
            r_m = to_float(fn(S.copy()))
            if not close(r_m, r_np):
                bad.append(('spot:' + name, '%s vs %s' % (r_m, r_np)))
        v = np.array([3.0, np.nan, 1.0])
        sv = to_model(v)
        if snp.argmin(sv) != int(np.argmin(v)) or snp.nanargmin(sv) != int(np.nanargmin(v)):
            bad.append(('spot:argmin-nan', 'argmin/nanargmin with NaN'))
        if not math.isnan(to_float(snp.max(sv))) or not math.isnan(to_float(snp.minimum(sv, 2.0))[1]):
            bad.append(('spot:max-nan', 'np.max / np.minimum must propagate NaN'))
        if to_float(shim.b_max(sv[1], 2.0)) == 2.0 or to_float(shim.b_max(2.0, sv[1])) != 2.0:
            bad.append(('spot:builtin-max-nan', 'python max(nan,2)=nan, max(2,nan)=2'))
        if list(to_float(snp.argsort(to_model(np.array([2.0, 1.0, 2.0, 0.5]))))) != list(np.argsort(np.array([2.0, 1.0, 2.0, 0.5]), kind='stable')):
            bad.append(('spot:argsort', 'argsort order'))
        m1 = to_float(snp.mean(to_model(np.array([[1.0, 2.0], [3.0, 5.0]])), axis=0))
        if not close(m1, [2.0, 3.5]):
            bad.append(('spot:mean-axis0', str(m1)))
        if not bool(snp.allclose(to_model(np.array([1.0, 2.0])), to_model(np.array([1.0, 2.0 + 1e-9])))):
            bad.append(('spot:allclose', 'allclose'))
    finally:
        core.CUR = None
    return bad


def main():
    t0 = time.time()
    fd, out = tempfile.mkstemp(suffix='.pkl', prefix='dfverif-rec-')
    os.close(fd)
    env = dict(os.environ, DFVERIF_RECORD=out, PYTHONPATH=os.path.dirname(os.path.dirname(os.path.abspath(__file__))))
    r = subprocess.run([sys.executable, '-m', 'pytest', '-q', '-p', 'no:cacheprovider', '-p', 'dfverif.record_plugin', '-x',
                        os.path.join(loader.REPO, 'dfols', 'tests')], cwd=loader.REPO, env=env, capture_output=True, text=True)
    if r.returncode != 0:
        print("shim validation: the test-suite itself failed under recording\n" + r.stdout[-1500:])
        return 2
    with open(out, 'rb') as f:
        rec = pickle.load(f)
    os.unlink(out)
    stats, bad = replay_recorded(rec)
    bad += spot_checks()
    print("shim validation: %d recorded calls replayed through the model, %d agree, %d disagree, %d skipped (exact-rational replay over %ds); %.0fs" % (
        stats['calls'], stats['agree'], stats['disagree'], stats['skipped_timeout'], 10, time.time() - t0))
    for n, fs in sorted(stats['by_function'].items()):
        print("   %-22s calls=%d agree=%d timeout=%d" % (n, fs['calls'], fs['agree'], fs['timeout']))
    for b in bad[:20]:
        print("   DISAGREEMENT %s: %s" % b)
    return 2 if bad else 0


if __name__ == '__main__':
    sys.exit(main())
