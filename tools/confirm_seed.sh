#!/bin/sh
# usage: tools/confirm_seed.sh <dir with patch.diff demo.py>   -> confirms: applies in a scratch worktree, tests pass, demo fails with / passes without
set -e
DIR=$(readlink -f "$1")
W=/tmp/wt/confirm.$$
git -C /repo worktree add -q "$W" HEAD
cd "$W"
/venv/bin/python "$DIR/demo.py" >/tmp/demo_clean.$$ 2>&1 && RC0=0 || RC0=$?
git apply "$DIR/patch.diff"
T=$(/venv/bin/python -m pytest -q -p no:cacheprovider dfols/tests 2>&1 | tail -1)
/venv/bin/python "$DIR/demo.py" >/tmp/demo_mut.$$ 2>&1 && RC1=0 || RC1=$?
cd /; git -C /repo worktree remove --force "$W"
echo "tests with change: $T | demo without change rc=$RC0 | demo with change rc=$RC1"
tail -2 /tmp/demo_mut.$$ | cut -c1-200; rm -f /tmp/demo_clean.$$ /tmp/demo_mut.$$
