#!/usr/bin/env python3
"""regenerates MANIFEST.json from the table below (single source of truth for the interface)"""
import json, os
HERE = os.path.dirname(os.path.dirname(os.path.abspath(__file__)))
TECH = "symbolic execution of the real dfols source (AST-loaded, numpy replaced by a symbolic model) + SMT (z3); counterexamples replayed on the imported package"
C = {}
def check(pid, text, note, technique, ref):
    C[pid] = {"property_id": pid, "quick_cmd": "bin/check %s quick" % pid, "thorough_cmd": "bin/check %s thorough" % pid,
              "evidence_file": "evidence/%s.json" % pid, "replay_cmd_template": "bin/check --replay {path}", "engine": "dfverif",
              "level_claimed": {"category": "other", "text": text, "design_ref": ref}, "level_note": note, "technique": technique}

check("C02", "Bounded symbolic verification: evaluate_objective (the only evaluation choke point), the x0-sampling block, soft-restart admission and one whole main-loop iteration from an arbitrary valid state are executed symbolically; z3 proves for all counter values, budgets and callback results that calls = nf increase <= maxfun, point numbers advance once per point, samples of a point get the identical x, and log numbering is consecutive. An AST scan shows objfun is called nowhere else; the hard-restart loop threads the counters (OUTER).",
      "Numerics stubbed by contracts (listed in evidence); <=3 samples per point; n=1..2, m=1..2; one inductive step (INV in DESIGN section 3) covers histories of any length; init.run_in_parallel ordering not covered.",
      "symbolic execution + SMT (z3 QF_UFLIA/LRA), inductive one-step invariant, AST call-site scan", "DESIGN.md section 4 C02")
check("C03", "Bounded symbolic verification of ghost-record integrity: after one whole main-loop iteration from any valid state every interpolation slot, the saved slot and the tuple returned at every exit is one whole evaluated record (x, mean residual, sample count, evaluation number) and obj = sumsq(resid)+h(x); same for the x0 exit and the merge/un-scaling of hard-restart runs; geometry_step, soft_restart (incl. growing the point set) and add_new_direction_while_growing also as stand-alone actions from any valid state with up to 2-3 samples per point; the Model operations with a regulariser and internal scaling (h sees the user's units).",
      "Numerics stubbed by contracts; x compared in real arithmetic (the base-point round trip is an identity over the reals); n=1, m=1, 2-3 points; the evaluation number given to the first point of a hard-restarted run is decided by the run-start harness.",
      "symbolic execution + SMT (z3 LRA+UF with NRA refinement), ghost records, inductive one-step invariant", "DESIGN.md section 4 C03")
check("C04", "Bounded symbolic verification: over one whole main-loop iteration from any valid state (every path, every exit site) the value get_final_results reports never increases and is <= the objective of every point evaluated in that iteration; the hard-restart merge never returns a worse value than any run; calculate_ratio reports a positive ratio only for a trial point that is better in sum(r^2)+h; geometry_step / soft_restart / add_new_direction_while_growing as stand-alone actions. Induction gives soln.obj <= f at every evaluated point.",
      "Deterministic objective, one sample per point (as the property states); numerics stubbed by contracts; products abstracted by UF with sign axioms (over-approximation), counterexamples refined under exact NRA and replayed; n=1, m=1.",
      "symbolic execution + SMT (z3 LRA+UF), ghost best-value monitor, inductive one-step invariant", "DESIGN.md section 4 C04")
check("C07", "Bounded symbolic verification of the whole argument/parameter validation of solve (every argument given or not, every user parameter key x value kind with symbolic magnitude, contradictory option pairs): no exception except ValueError for an unknown key; BAD(input) => input-error result with zero evaluations that prints; GOOD(input) => accepted; documented EXIT_* constants exposed; soft_restart / geometry_step never raise for any move_xk, num_geom_steps in [0,4] and point-set size; CrossHair (second engine) confirms the parameter checkers of params.py over all paths.",
      "Oracle = predicate BAD written from the property text and a golden parameter table; n<=2; |x0|, rhobeg, rhoend <= 1e15; a 1e-9 relative band around float thresholds, bool-for-int and rhobeg==rhoend are unspecified; solve_main stubbed (validation only).",
      "symbolic execution + SMT (z3 linear integer/real arithmetic)", "DESIGN.md section 4 C07")
check("C10", "Bounded symbolic verification: obligations attached to every exit of the real code (classified by the message the real ExitInformation carries) over one main-loop iteration from any state, the x0 block, evaluate_objective, soft_restart admission and the hard-restart loop: each message implies the fact it states; nruns is incremented exactly once per run end; soln.nruns = number of runs; success never with a non-finite objective (extended reals).",
      "Numerics stubbed by contracts; restarts.rhoend_scale = 1 (default); n=1, m=1; <=3 hard-restart runs.",
      "symbolic execution + SMT (z3 LRA+UF, NaN/inf flags), exit-site obligations", "DESIGN.md section 4 C10")
check("C15", "Bounded symbolic verification of the real dykstra loop with arbitrary projector outputs: sweeps <= max_iter, early stop only by the tolerance rule, textbook iteration (arguments/corrections), stop by tolerance => within sqrt(p*tol) of every set; feasible points are fixed points of the real pbox/pball; binary64 proof that pbox output is exactly in the box.",
      "NOT decided: 'within 1e-3 of the true projection' (convergence). n<=2 (6 thorough), p<=3 (4), max_iter<=3; real arithmetic except the FP box lemma; max_iter>=1 for the box clause.",
      "symbolic execution + SMT (z3 QF_NRA; QF_FP binary64 for the box)", "DESIGN.md section 4 C15")
check("C17", "Bounded symbolic verification: every Model mutator and save_point/get_final_results is executed symbolically from an arbitrary state satisfying the bookkeeping invariant; z3 shows the invariant and each operation's contract hold for all real/NaN/inf values. One inductive step covers operation sequences of any length.",
      "Extended reals (NaN, +-inf exact; finite rounding/overflow not modelled); n<=2, m<=2, num_pts<=4, sample counts<=3; regulariser family lam*sum|x_i-c_i|.",
      "symbolic execution + SMT (z3 QF_NRA with NaN/inf flags), inductive one-step invariant", "DESIGN.md section 4 C17")
check("C18", "Bounded symbolic verification: INV-radii re-established at every continue of one whole main-loop iteration from any state (STEP), exact QF_NRA harnesses of Controller.reduce_rho and of the sliced 'update delta' block with every tr_radius parameter symbolic in its legal range (ratio NaN/inf included), diagnostic-table row obligations; soft_restart as a stand-alone action with the switch, increment and room of restarts.increase_npt arbitrary (never more than restarts.max_npt points).",
      "rhobeg <= 1e9 (beyond, the 1e10 cap is exceeded: known finding); restarts.rhoend_scale = 1; pandas not executed (table built from the checked lists).",
      "symbolic execution + SMT (z3 LRA+UF and QF_NRA), AST slicing of the radius-update block", "DESIGN.md section 4 C18")
check("C20", "Bounded symbolic verification of the real to_dict/from_dict/__str__/replace_nan_with_none over result objects with symbolic extended-real fields (NaN/inf/finite, optional fields present or absent, diagnostic table): plain and strict JSON data, every field reproduced with None<->NaN, str never raises and agrees field by field; at the x0 exit of solve_main the residual handed to the result is the solver's own float64 array (integer-valued objective, caller mutating its arrays afterwards).",
      "json modelled as identity on plain data + strictness predicate, pandas by a list-backed stand-in (replays use the real modules); arrays <= 3x2.",
      "symbolic execution + SMT (z3 LRA with NaN/inf flags)", "DESIGN.md section 4 C20")

check("C01", "Exactness decided in genuine IEEE binary64 (z3 QF_FP) on the real Model.__init__/shift_base/as_absolute_coordinates/xpt/xopt and on remove_scaling with the scaling record built by the real solve prologue: every point handed out in absolute coordinates lies in [xl,xu] with no tolerance (per coordinate; the code on this path is elementwise, so all n). Glue in real arithmetic: every x evaluated in one main-loop iteration from any state (STEP), in the run start incl. the coordinate initialisation (RUN-START) and the x0 handed to every run (OUTER) lies in the box.",
      "|values| <= 1000 and <= 2 base shifts in the binary64 kernel (k shifts = same formula on a shifted state); NaN inputs excluded; glue harnesses: numerics stubbed by contracts, n=1..2.",
      "symbolic execution + SMT (z3 QF_FP binary64 bit-precise; LRA+UF for the glue)", "DESIGN.md section 4 C01")
check("C06", "PARTIAL. Decided by symbolic execution of the real ctrsbox_sfista / Controller.trust_region_step / evaluate_criticality_measure: h and prox_uh are called with the user's extra arguments unchanged (len 0..2) without TypeError; the box handed to the regularised subproblem is the true bound box in the coordinates of the point handed over; the step handed back never has a negative predicted reduction (also with internal scaling); every Model operation that stores an objective value adds h at the stored point in the user's units; calculate_ratio's actual reduction includes the change of h; the small-objective test at x0 includes h. NOT decided: the convergence clause (within 1e-3*(1+F*) and success).",
      "Convergence over whole runs is out of reach of bounded symbolic execution (DESIGN section 6); S-FISTA loop cut to 2 iterations; n<=2.",
      "symbolic execution + SMT (z3 LRA+UF / QF_NRA), argument-capturing stubs", "DESIGN.md section 4 C06")
check("C08", "PARTIAL. Extended-real (NaN/+-inf flags) symbolic execution: one whole main-loop iteration from any state with a bad value possible at every evaluation of it (no exception from the real code unless opted in, a finite best value survives and never increases, success never with a non-finite objective), exception propagation from the objective (no further evaluation), the Model selection operations, the overflow guard, trsbox handed a NaN/inf model (finite step inside the box, no exception), a non-finite model gradient reaching the diagnostic table, the hard-restart merge with NaN/inf run results, soft_restart / add_new_direction as stand-alone actions. NOT decided: termination of a whole run under a fault; behaviour of LAPACK on non-finite data (contract: reported as failure).",
      "Finite rounding/overflow not modelled; numerics stubbed by contracts; n=1, m=1.",
      "symbolic execution + SMT (z3 LRA+UF with NaN/inf flags), fault as a symbolic input", "DESIGN.md section 4 C08")
check("C09", "Provenance by symbolic execution: every x evaluated in one main-loop iteration with projections equals an output of the alternating projection over the model's projector list (box last); the real solve prologue appends the box projector last (= clip(lower,upper)), disables the internal bounds, projects x0 and starts from the projection; C15's stop-rule lemma (re-run for p = user sets + box) gives the sqrt(p*tol) distance and the binary64 pbox lemma the exact box.",
      "dykstra stubbed by the contract proved in C15; one user projector; |x0|, |bounds| <= 1e15; n<=2 (3 thorough).",
      "symbolic execution + SMT (z3 LRA+UF, QF_NRA, QF_FP), provenance of evaluated points", "DESIGN.md section 4 C09")
check("C11", "PARTIAL. Semi-symbolic: on each member of a concrete point-geometry family the real fitting code (interpolate_mini_models_svd -> factorise/solve_geom_system) is executed with symbolic linear data r = A y - b and z3 shows J = A for all (A,b); evaluation numbers returned with a Jacobian are a fit-time snapshot of slots that carry their true numbers (STEP, RUN-START); the Jacobian and the numbers handed back come from the same fit and the same record as x (get_final_results, every exit of STEP); solve un-scales the columns exactly once and keeps Jacobian and numbers of the same run (OUTER).",
      "LAPACK QR of the concrete matrix trusted, triangular solve = exact substitution; tolerance 1e-7*|data| on a well-conditioned family stands for conditioning-scaled rounding (not decided in general); n<=3.",
      "semi-symbolic execution + SMT (z3 LRA), ghost evaluation numbers", "DESIGN.md section 4 C11")
check("C12", "QF_NRA symbolic execution of the real trsbox/alt_trust_step/d_within_bounds: n=1 with everything symbolic, n=2 semi-symbolic (concrete model family, symbolic box): step in the box, in the ball (1e-8), model not increased, gnew = g + H d, at least Cauchy decrease for every admissible steepest-descent length; binary64: the clipped point is exactly in the box.",
      "Dimensions 3..8 outside the bound; n=2 members with curvature are explored under a budget and mostly inconclusive (rational expressions of growing degree); |g|^2 > 1e-18, Delta >= 1e-9 (code's absolute cut-offs return the zero step by design); monotonicity of IEEE rounding for d = xnew - xopt not decided.",
      "symbolic execution + SMT (z3 QF_NRA with solver portfolio; QF_FP)", "DESIGN.md section 4 C12")
check("C13", "QF_NRA symbolic execution of the real trsbox_linear/ball_step (feasibility + global optimality as an existential competitor query, everything symbolic), trsbox_geometry (choice logic over the proved contract: global maximum of |c+g.s|, never worse than not moving), pball, the projector-list structure of ctrsbox_pgd/sfista/linear/geometry (ball projected last with the right centre/radius, step = projection output - centre) and the zero-step rule of Controller.trust_region_step with a regulariser.",
      "n<=2 (3 thorough); |g_i| = 0 or >= 1e-14 (ZERO_THRESH by design); loops of the convex solvers cut to 2 iterations; some n=2 optimality queries stay `unknown` within the time limit and are reported inconclusive.",
      "symbolic execution + SMT (z3 QF_NRA, portfolio z3 4.8.12 / cvc5 1.4)", "DESIGN.md section 4 C13")
check("C14", "Symbolic execution of the real initialise_coordinate_directions from the state solve_main builds (any x0 in any box with gap >= 2*rhobeg, any residual values): every evaluated point inside the box, 0.01..2 rhobeg from x0 along one coordinate, two distinct non-zero steps per coordinate; and of random_directions_within_bounds / random_orthog_directions_within_bounds / get_scale with the normal draws as arbitrary reals and the QR factor as an arbitrary orthonormal matrix: requested count, inside the bounds, no longer than delta.",
      "n<=2 (3 thorough), npt<=2n+1 (+off-diagonal points thorough); condition number < 1e4 follows on paper from the proved step inequalities, not a solver result.",
      "symbolic execution + SMT (z3 LRA+UF; QF_NRA for the generators)", "DESIGN.md section 4 C14")
check("C16", "PARTIAL. Semi-symbolic (concrete geometry family, symbolic data): the real fitting code satisfies the interpolation equations (npt = n+1 and growing npt < n+1) and the normal equations (npt > n+1) for ALL data; fully symbolic QF_NRA: base shifts leave the assembled gradient and Hessian unchanged (model values at fixed absolute points: C17 harness).",
      "Lagrange identities are concrete evaluations and not claimed; rounding proportional to conditioning not decided; LAPACK QR trusted; n<=3.",
      "semi-symbolic execution + SMT (z3 LRA), QF_NRA identities", "DESIGN.md section 4 C16")
check("C19", "Ownership-tracking symbolic execution of the real solve prologue / restart loop / packaging on caller-owned arrays: no in-place write reaches x0, the bound arrays, user_params, the projections list or a mutable default; RNG-reachability obligations in one main-loop iteration (STEP), the run start (RUN-START) and the projections initialisation: random generators are reached/used only when an option documented as random is on (incl. soft_restart with every setting of restarts.increase_npt); in the rank-repair loops of the projections initialisation an unsuccessful random sign flip leaves no trace in the directions evaluated.",
      "Bit-identical repetition follows from 'no RNG and no hidden state' for the remaining pure code (not separately executed twice); n<=2.",
      "symbolic execution + SMT (z3), ownership tags on the array model", "DESIGN.md section 4 C19")

NA = [
 ("C05", "convergence of whole runs (tens to hundreds of iterations through LAPACK QR/SVD until rho = rhoend) is out of reach of bounded symbolic execution; the solver-sized ingredients are checked under C12, C16, C18, C10 (DESIGN.md section 6)"),
]
PENDING = []

def main():
    have = sorted(k for k in C if os.path.exists(os.path.join(HERE, 'dfverif', 'checks', k.lower() + '.py')))
    na = [{"property_id": p, "reason": r} for p, r in NA]
    for p in PENDING:
        if p not in have:
            na.append({"property_id": p, "reason": "check not registered yet in this revision (harness under construction; see DESIGN.md)"})
    m = {"version": 1, "setup_cmd": "bin/ensure-env && bin/validate-shim",
         "hooks": {"guard": "DFOLS_VERIF", "enable": "no hooks in /repo: the engine reads /repo/dfols/*.py (AST) on every run and the replays import the real package",
                   "baseline_off_cmd": "cd /repo && /venv/bin/python -m pytest -ra -q -p no:cacheprovider --timeout=900 --continue-on-collection-errors dfols/tests",
                   "source_commits": [], "add_only": True},
         "engines": [{"name": "dfverif", "path": "dfverif/", "serves_properties": have, "kind_free_text": TECH}],
         "checks": [C[k] for k in have], "not_applicable": na,
         "notes": "exit codes: 0 = all explored obligations discharged or listed known finding; 1 = replayed violation (VIOLATION line); 2 = harness error (anchor missing, vacuity, engine failure) - never a verdict. INCONCLUSIVE lines report solver unknowns / counterexamples that did not reproduce on the real code."}
    with open(os.path.join(HERE, 'MANIFEST.json'), 'w') as f:
        json.dump(m, f, indent=1)
    print("checks:", have, "not_applicable:", [x['property_id'] for x in na])

main()
