#!/usr/bin/env python3
"""tools/import_seed.py <src dir> <name> <property> <detected-by text> : copies patch/demo/notes and writes meta.json"""
import sys, os, json, shutil, subprocess
src, name, prop, detected = sys.argv[1:5]
dst = os.path.join('/verif/seeded', name)
os.makedirs(dst, exist_ok=True)
for f in ('patch.diff', 'demo.py'):
    shutil.copy(os.path.join(src, f), os.path.join(dst, f))
notes = open(os.path.join(src, 'notes.md')).read() if os.path.exists(os.path.join(src, 'notes.md')) else ''
conf = subprocess.run(['/verif/tools/confirm_seed.sh', src], capture_output=True, text=True).stdout.strip().splitlines()
meta = {'name': name, 'breaks_property': prop, 'author': 'independent sub-agent given only the property text and a scratch worktree',
        'what_and_needs': notes.strip()[:2500],
        'confirmed_by_me': conf[0] if conf else '',
        'how_confirmed': 'tools/confirm_seed.sh: fresh worktree of /repo HEAD, demo.py without the change (rc 0), git apply patch.diff, full test-suite, demo.py with the change (rc 1); worktree removed',
        'checks_run_against_it': detected}
json.dump(meta, open(os.path.join(dst, 'meta.json'), 'w'), indent=1)
print(name, '|', meta['confirmed_by_me'])
