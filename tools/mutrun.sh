#!/bin/sh
# usage: tools/mutrun.sh <patch.diff> <command...>   -- run a command with DFVERIF_REPO pointing at a patched scratch copy of /repo
PATCH=$(readlink -f "$1"); shift
D=$(mktemp -d /tmp/seedrepo.XXXXXX)
cp -r /repo/dfols "$D/dfols"; mkdir -p "$D/docs"; cp /repo/docs/*.rst "$D/docs/"
(cd "$D" && patch -p1 -s < "$PATCH") || { echo "PATCH FAILED"; rm -rf "$D"; exit 3; }
DFVERIF_REPO=$D "$@"; RC=$?
rm -rf "$D"; exit $RC
