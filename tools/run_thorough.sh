#!/bin/sh
# runs the thorough tier of the given checks sequentially and prints one line per check (for sizing; not evidence)
cd "$(dirname "$0")/.."
for id in "$@"; do
  s=$(date +%s); bin/check $id thorough > /tmp/thorough_$id.log 2>&1; rc=$?; e=$(date +%s)
  echo "$id rc=$rc $((e-s))s viol=$(grep -c '^VIOLATION' /tmp/thorough_$id.log) known=$(grep -c '^KNOWN' /tmp/thorough_$id.log) inconcl=$(grep -c 'INCONCLUSIVE' /tmp/thorough_$id.log) herr=$(grep -c 'HARNESS-ERROR' /tmp/thorough_$id.log); $(tail -1 /tmp/thorough_$id.log | cut -c1-230)"
done
