#!/bin/sh
# usage: tools/seed_batch.sh <logfile> <seed dir>:<check id> ...   (confirms each seed, then runs the quick check against it)
LOG=$1; shift
for item in "$@"; do
  d=${item%%:*}; id=${item##*:}
  echo "== $d [$id] $(/verif/tools/confirm_seed.sh $d | head -1)" >> $LOG
  SHOW=2 /verif/tools/seedtest.sh $d/patch.diff $id quick 2>&1 | cut -c1-220 >> $LOG
done
echo "BATCH DONE" >> $LOG
