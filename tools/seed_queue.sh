#!/bin/sh
# usage: tools/seed_queue.sh <queue file> <log file>   - processes lines "<seed dir>:<check id>" appended to the queue file, one after another
Q=$1; LOG=$2; touch "$Q"
tail -n +1 -f "$Q" | while read item; do
  [ "$item" = "STOP" ] && break
  d=${item%%:*}; id=${item##*:}
  echo "== $d [$id] $(/verif/tools/confirm_seed.sh $d | head -1)" >> $LOG
  SHOW=4 /verif/tools/seedtest.sh $d/patch.diff $id quick 2>&1 | cut -c1-240 >> $LOG
done
