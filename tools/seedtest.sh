#!/bin/sh
# usage: tools/seedtest.sh <patch.diff> <check id> [tier]
# Runs a check against a scratch copy of /repo with the patch applied (DFVERIF_REPO); /repo itself is not touched.
# prints DETECTED / MISSED and the VIOLATION lines.
set -e
PATCH=$(readlink -f "$1"); ID=$2; TIER=${3:-quick}
D=$(mktemp -d /tmp/seedrepo.XXXXXX)
cp -r /repo/dfols "$D/dfols"; mkdir -p "$D/docs"; cp /repo/docs/*.rst "$D/docs/"
(cd "$D" && patch -p1 -s < "$PATCH") || { echo "PATCH FAILED"; rm -rf "$D"; exit 3; }
cd /verif
cp evidence/$ID.json /tmp/evid-keep-$$-$ID.json 2>/dev/null || true
OUT=$(DFVERIF_REPO=$D bin/check $ID $TIER 2>&1) && RC=0 || RC=$?
cp /tmp/evid-keep-$$-$ID.json evidence/$ID.json 2>/dev/null || true; rm -f /tmp/evid-keep-$$-$ID.json
rm -rf "$D"
N=$(echo "$OUT" | grep -c '^VIOLATION' || true)
if [ "$RC" = "1" ] && [ "$N" -gt 0 ]; then echo "DETECTED by $ID ($TIER): rc=$RC violations=$N"; else echo "MISSED by $ID ($TIER): rc=$RC violations=$N"; fi
echo "$OUT" | grep -A1 '^VIOLATION' | head -${SHOW:-6}
echo "$OUT" | grep 'HARNESS-ERROR' | head -3
echo "$OUT" | tail -1 | cut -c1-220
