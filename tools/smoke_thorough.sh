#!/bin/sh
# smoke test of the thorough tier with exploration budgets scaled down (DFVERIF_BUDGET_SCALE): finds crashes / anchors / vacuity, not verdicts
cd "$(dirname "$0")/.."
export DFVERIF_BUDGET_SCALE=${DFVERIF_BUDGET_SCALE:-0.08}
for id in "$@"; do
  s=$(date +%s); bin/check $id thorough > /tmp/smoke_$id.log 2>&1; rc=$?; e=$(date +%s)
  echo "$id rc=$rc $((e-s))s viol=$(grep -c '^VIOLATION' /tmp/smoke_$id.log) herr=$(grep -c 'HARNESS-ERROR' /tmp/smoke_$id.log); $(tail -1 /tmp/smoke_$id.log | cut -c1-200)"
  grep 'HARNESS-ERROR' /tmp/smoke_$id.log | cut -c1-400 | head -3
done
